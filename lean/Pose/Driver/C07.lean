import Pose.Wire
import Pose.Driver.Lie
import Pose.Model.GNStep
/-!
# Driver ops for C07 (one GN / LM step)

Every op runs the definitions of `Pose/Model/GNStep.lean` at `α = BigF`.  Intermediate matrices are tabulated
here (the model itself is written with index functions), which changes no value.

    c07.hcat   rows P (n_j rg_j)×P  data of every block…                -> rows × Σ(kept n) matrix
    c07.pick   ncorr nres                                               -> corrector index per residual | err
    c07.wdiag  K (rrank rshape… wrank wshape…)×K  wdata…                -> rows cols entries… | err raise
    c07.gn     n K rows_1 … rows_K hasW [(rrank rshape… wrank wshape…)×K]  (R_i J_i)×K  [wdata…]
                                                                        -> m, A (m×n), b (m) | err raise
    c07.lm     n K rows_1 … rows_K hasW [(…)×K] ntr  lo hi lam_1 … lam_ntr (R_i J_i)×K [wdata…]
                                                                        -> b (n), A_1 … A_ntr (n×n each) | err raise
    c07.update P (kind numel rg)×P lenD  eps  pdata… D…                 -> new data of all parameters | err split
-/
namespace PP.Driver
open PP Wire GNStep

abbrev Pr (β : Type) := List String → Except String (β × List String)

def pNat : Pr Nat
  | t :: ts => do let n ← nat t; return (n, ts)
  | [] => throw "arity"

def pNats : Nat → Pr (List Nat)
  | 0, ts => return ([], ts)
  | n+1, ts => do
    let (x, ts) ← pNat ts
    let (xs, ts) ← pNats n ts
    return (x :: xs, ts)

def pNums (n : Nat) : Pr (Array B) := fun ts => do
  if ts.length < n then throw "arity"
  let xs ← nums (ts.take n)
  return (xs.toArray, ts.drop n)

def fn1 (a : Array B) : Nat → B := fun i => a.getD i BigF.zero
/-- tabulation: the arrays are *values* (computed once, Lean is strict); `fn1` / `fn2` read them back -/
def tab1 (n : Nat) (f : Nat → B) : Array B := Array.ofFn (n := n) fun i => f i.val
def tab2 (n m : Nat) (f : Nat → Nat → B) : Array (Array B) :=
  Array.ofFn (n := n) fun i => Array.ofFn (n := m) fun j => f i.val j.val
def fn2 (a : Array (Array B)) : Nat → Nat → B := fun i j => (a.getD i #[]).getD j BigF.zero
def flat2 (n m : Nat) (f : Nat → Nat → B) : List B :=
  (List.range n).flatMap fun i => (List.range m).map fun j => f i j

/-- `(rrank rshape… wrank wshape…)` -/
def pShapes : Pr (List Nat × List Nat) := fun ts => do
  let (rr, ts) ← pNat ts
  let (rs, ts) ← pNats rr ts
  let (wr, ts) ← pNat ts
  let (ws, ts) ← pNats wr ts
  return ((rs, ws), ts)

def pMany {β : Type} (p : Pr β) : Nat → Pr (List β)
  | 0, ts => return ([], ts)
  | n+1, ts => do
    let (x, ts) ← p ts
    let (xs, ts) ← pMany p n ts
    return (x :: xs, ts)

/-- residual data `(R_i, J_i)` for row counts `rows`, `n` columns -/
def pRes (n : Nat) : List Nat → Pr (List (Res B))
  | [], ts => return ([], ts)
  | r :: rs, ts => do
    let (Rv, ts) ← pNums r ts
    let (Jv, ts) ← pNums (r * n) ts
    let (rest, ts) ← pRes n rs ts
    return (⟨r, fn1 Rv, fun i j => Jv.getD (i * n + j) BigF.zero⟩ :: rest, ts)

def pWData : List (List Nat × List Nat) → Pr (List (List Nat × (Nat → B)))
  | [], ts => return ([], ts)
  | (_, ws) :: rest, ts => do
    let (d, ts) ← pNums (GNStep.prod ws) ts
    let (out, ts) ← pWData rest ts
    return ((ws, fn1 d) :: out, ts)

/-- common header of `c07.gn` / `c07.lm` -/
structure Hdr where
  n : Nat
  rows : List Nat
  shapes : Option (List (List Nat × List Nat))

def pHdr : Pr Hdr := fun ts => do
  let (n, ts) ← pNat ts
  let (K, ts) ← pNat ts
  let (rows, ts) ← pNats K ts
  let (hasW, ts) ← pNat ts
  if hasW == 0 then return (⟨n, rows, none⟩, ts)
  let (Kw, ts) ← pNat ts
  let (sh, ts) ← pMany pShapes Kw ts
  return (⟨n, rows, some sh⟩, ts)

def kindOf (c : Nat) : Except String Kind :=
  match c with
  | 0 => .ok .euclid
  | 1 => .ok (.alg .SO3) | 2 => .ok (.alg .SE3) | 3 => .ok (.alg .RxSO3) | 4 => .ok (.alg .Sim3)
  | 5 => .ok (.grp .SO3) | 6 => .ok (.grp .SE3) | 7 => .ok (.grp .RxSO3) | 8 => .ok (.grp .Sim3)
  | _ => .error "bad-kind"

def pParamSpec : Pr (Kind × Nat × Bool) := fun ts => do
  let (c, ts) ← pNat ts
  let (n, ts) ← pNat ts
  let (rg, ts) ← pNat ts
  let kd ← kindOf c
  return ((kd, n, rg != 0), ts)

def pParamData : List (Kind × Nat × Bool) → Pr (List (Param B))
  | [], ts => return ([], ts)
  | (kd, n, rg) :: rest, ts => do
    let (d, ts) ← pNums n ts
    let (out, ts) ← pParamData rest ts
    return (⟨kd, n, rg, fn1 d⟩ :: out, ts)

def idC : Res B → Res B := id

/-- `kn flags…` : `-1` = None, `0` = one module, `L ≥ 1` = a list of `L` entries (flag 1 = present, 0 = `None`) -/
def pArg : Pr (GNStep.Arg Nat) := fun ts => do
  match ts with
  | t :: ts =>
    let n ← Wire.int t
    if n < 0 then return (GNStep.Arg.none, ts)
    if n == 0 then return (GNStep.Arg.one 0, ts)
    let L := n.toNat
    let (fl, ts) ← pNats L ts
    let entries := (List.range L).map fun j => if fl.getD j 0 != 0 then some j else none
    return (GNStep.Arg.many entries, ts)
  | [] => throw "arity"

def selCode : GNStep.CorrSel Nat Nat → String
  | .trivial => "T"
  | .auto none => "AN"
  | .auto (some j) => s!"A{j}"
  | .user j => s!"U{j}"


def opsC07 : List (String × Handler) := [
  ("c07.hcat", fun ts => do
      let (rows, ts) ← pNat ts
      let (P, ts) ← pNat ts
      let (flat, ts) ← pNats (2 * P) ts
      let rec pairs : List Nat → List (Nat × Bool)
        | n :: g :: rest => (n, g != 0) :: pairs rest
        | _ => []
      let ps := pairs flat
      let ns := ps.map (·.1)
      let rec blocks : List Nat → List String → Except String (List (Array B))
        | [], ts => if ts.isEmpty then return [] else throw "arity"
        | n :: ns, ts => do
          let (d, ts) ← pNums (rows * n) ts
          let rest ← blocks ns ts
          return d :: rest
      let bl ← blocks ns ts
      let ba := bl.toArray
      let nsA := ns.toArray
      let J := flattenRowJac ps fun j r o => (ba.getD j #[]).getD (r * nsA.getD j 0 + o) BigF.zero
      return fmt (flat2 rows (GNStep.total (keepNumels ps)) J)),
  ("c07.pick", fun ts => do
      match ts with
      | [a, b] =>
        let ncorr ← nat a; let nres ← nat b
        let cs := List.range ncorr
        let picks := (List.range nres).map fun i => pickCorrector cs i
        if picks.all Option.isSome then return fmtNats (picks.filterMap id) else throw "raise"
      | _ => throw "arity"),
  ("c07.wdiag", fun ts => do
      let (K, ts) ← pNat ts
      let (sh, ts) ← pMany pShapes K ts
      let (wd, ts) ← pWData sh ts
      if !ts.isEmpty then throw "arity"
      match allBlocks (sh.map (·.1)) wd with
      | none => throw "raise"
      | some bs =>
        let r := wRows bs; let c := wCols bs
        return s!"{r} {c} " ++ fmt (flat2 r c (blockDiag bs))),
  ("c07.gn", fun ts => do
      let (h, ts) ← pHdr ts
      let (rs, ts) ← pRes h.n h.rows ts
      let (wd, ts) ← match h.shapes with
        | none => pure (none, ts)
        | some sh => do let (w, ts) ← pWData sh ts; pure (some w, ts)
      if !ts.isEmpty then throw "arity"
      let rshapes := match h.shapes with | none => [] | some sh => sh.map (·.1)
      -- tabulate the block-diagonal weight once (the model's `weightMat` is re-run inside `gnSystem` on the
      -- tabulated data: same values)
      match gnSystem h.n [idC] rs rshapes wd with
      | none => throw "raise"
      | some S =>
        return s!"{S.m} " ++ fmt (flat2 S.m S.n S.A ++ (List.range S.m).map S.b)),
  ("c07.lm", fun ts => do
      let (h, ts) ← pHdr ts
      let (ntr, ts) ← pNat ts
      let (lohi, ts) ← pNums 2 ts
      let (lams, ts) ← pNums ntr ts
      let (rs, ts) ← pRes h.n h.rows ts
      let (wd, ts) ← match h.shapes with
        | none => pure (none, ts)
        | some sh => do let (w, ts) ← pWData sh ts; pure (some w, ts)
      if !ts.isEmpty then throw "arity"
      let rshapes := match h.shapes with | none => [] | some sh => sh.map (·.1)
      let lo := lohi.getD 0 BigF.zero; let hi := lohi.getD 1 BigF.zero
      -- same pipeline as `lmSystem`, with the intermediate matrices tabulated
      match correctAll [idC] rs with
      | none => throw "raise"
      | some rs' =>
        let m := totalRows rs'
        match weightMat rshapes wd m with
        | none => throw "raise"
        | some W =>
          let Wt := W.map (tab2 m m)
          let W := Wt.map fn2
          let Jt := tab2 m h.n (catJ rs')
          let J := fn2 Jt
          let Rt := tab1 m (catR rs')
          let R := fn1 Rt
          let JTt := tab2 h.n m (lmJT m W J)
          let JT := fn2 JTt
          let A0t := tab2 h.n h.n (clampDiag lo hi (lmNormal m JT J))
          let A0 := fn2 A0t
          let b := lmb m JT R
          let trials := (List.range ntr).map fun t => lmAk A0 (lams.toList.take (t + 1))
          return fmt ((List.range h.n).map b ++ trials.flatMap (flat2 h.n h.n))),
  -- c07.config <kernel arg> <corrector arg>            -> entries of optimizer.corrector
  ("c07.config", fun ts => do
      let (ka, ts) ← pArg ts
      let (ca, ts) ← pArg ts
      if !ts.isEmpty then throw "arity"
      return " ".intercalate ((configCorrectors ka ca).map selCode)),
  -- c07.served nres <kernel arg> <corrector arg>       -> the corrector serving each residual | err raise
  ("c07.served", fun ts => do
      let (nres, ts) ← pNat ts
      let (ka, ts) ← pArg ts
      let (ca, ts) ← pArg ts
      if !ts.isEmpty then throw "arity"
      let sel := (List.range nres).map fun i => servedBy ka ca i
      if sel.all Option.isSome then return " ".intercalate ((sel.filterMap id).map selCode) else throw "raise"),
  -- c07.wsel hasCtor hasStep                            -> none | ctor | step
  ("c07.wsel", fun ts => do
      match ts with
      | [a, b] =>
        let c ← nat a; let s ← nat b
        match selectWeight (if c != 0 then some "ctor" else none) (if s != 0 then some "step" else none) with
        | some w => return w
        | none => return "none"
      | _ => throw "arity"),
  -- c07.resid K n_1 … n_K hasT [flag_1 … flag_T(=nT entries)] outs… targets…   -> residuals | err raise
  ("c07.resid", fun ts => do
      let (K, ts) ← pNat ts
      let (ns, ts) ← pNats K ts
      let (hasT, ts) ← pNat ts
      let (nT, ts) ← if hasT == 0 then pure (0, ts) else pNat ts
      let (flags, ts) ← pNats nT ts
      let rec outsP : List Nat → List String → Except String (List (Array B) × List String)
        | [], ts => return ([], ts)
        | n :: ns, ts => do
          let (d, ts) ← pNums n ts
          let (rest, ts) ← outsP ns ts
          return (d :: rest, ts)
      let (outs, ts) ← outsP ns ts
      -- targets: entry j (j < nT) has the size of output j when present
      let rec tgtP : List (Nat × Nat) → List String → Except String (List (Option (Array B)) × List String)
        | [], ts => return ([], ts)
        | (n, f) :: rest, ts => do
          if f == 0 then
            let (r, ts) ← tgtP rest ts
            return (none :: r, ts)
          else
            let (d, ts) ← pNums n ts
            let (r, ts) ← tgtP rest ts
            return (some d :: r, ts)
      let sizesT := (List.range nT).map fun j => (ns.getD j 0, flags.getD j 0)
      let (tg, ts) ← tgtP sizesT ts
      if !ts.isEmpty then throw "arity"
      let targets : Option (List (Option (Nat → B))) := if hasT == 0 then none else some (tg.map fun o => o.map fn1)
      match residualsOf (outs.map fn1) targets with
      | none => throw "raise"
      | some rs => return fmt ((rs.zip ns).flatMap fun p => (List.range p.2).map p.1)),
  -- c07.lmcfg fmin fmax frej [min] [max] [rej]         -> min max reject
  ("c07.lmcfg", fun ts => do
      let (fl, ts) ← pNats 3 ts
      let (lo, ts) ← if fl.getD 0 0 != 0 then do let (v, ts) ← pNums 1 ts; pure (some (v.getD 0 BigF.zero), ts) else pure (none, ts)
      let (hi, ts) ← if fl.getD 1 0 != 0 then do let (v, ts) ← pNums 1 ts; pure (some (v.getD 0 BigF.zero), ts) else pure (none, ts)
      let (rj, ts) ← if fl.getD 2 0 != 0 then do let (v, ts) ← pNat ts; pure (some v, ts) else pure (none, ts)
      if !ts.isEmpty then throw "arity"
      let c := lmConfig lo hi rj
      return fmt [c.lo, c.hi] ++ s!" {c.reject}"),
  ("c07.update", fun ts => do
      let (P, ts) ← pNat ts
      let (specs, ts) ← pMany pParamSpec P ts
      let (lenD, ts) ← pNat ts
      let (e, ts) ← pNums 1 ts
      let (ps, ts) ← pParamData specs ts
      let (D, ts) ← pNums lenD ts
      if !ts.isEmpty then throw "arity"
      match stepUpdate (e.getD 0 BigF.zero) ps lenD (fn1 D) with
      | none => throw "split"
      | some out => return fmt (out.flatMap fun p => (List.range p.numel).map p.data))
]

end PP.Driver
