/-
C04 (pass 3): the property in its own terms — `.grad` of a group leaf, paired with a direction `τ`, is the derivative of the program
along the true retraction `t ↦ Exp(t·τ) @ X` of that leaf.
-/
import Proofs.Lemmas.AutogradRetr
set_option linter.unusedSimpArgs false
set_option linter.unusedVariables false
set_option maxRecDepth 10000
namespace PP.AD
open PP

/-- every contribution the reverse sweep delivers to a leaf has the storage length of that leaf -/
theorem backprop_lengths (dJ : DJ ℝ) (hdJ : DJShape dJ) (eps : ℝ) (lt : List Ty) (env : List (DVec ℝ)) (p : Prog) :
    ∀ ty go, tyOf lt p = some ty → go.length = ty.dim →
      ∀ c ∈ backprop dJ eps env p go, ∀ t, lt[c.1]? = some t → c.2.length = t.dim := by
  induction p with
  | leaf i =>
    intro ty go hty hgo c hc t ht
    simp only [backprop, List.mem_singleton] at hc
    subst hc
    simp only [tyOf] at hty
    rw [hty] at ht; cases ht; exact hgo
  | un o g p ih =>
    intro ty go hty hgo c hc t ht
    simp only [tyOf] at hty
    cases hp : tyOf lt p with
    | none => simp [hp] at hty
    | some u =>
      simp only [hp, Option.bind_some] at hty
      have hb := length_bwd1 o g eps (eval eps env p) (fwd1 o g eps (eval eps env p)) go u ty hty
      exact ih u _ hp hb c hc t ht
  | bin o g p q ihp ihq =>
    intro ty go hty hgo c hc t ht
    simp only [tyOf] at hty
    cases hp : tyOf lt p with
    | none => simp [hp] at hty
    | some u =>
      cases hq : tyOf lt q with
      | none => simp [hp, hq] at hty
      | some u' =>
        simp only [hp, hq, Option.bind_some] at hty
        obtain ⟨b1, b2⟩ := length_bwd2 dJ hdJ o g eps (eval eps env p) (eval eps env q)
          (fwd2 o g eps (eval eps env p) (eval eps env q)) go u u' ty hty
        simp only [backprop, List.mem_append] at hc
        rcases hc with hc | hc
        · exact ihp u _ hp b1 c hc t ht
        · exact ihq u' _ hq b2 c hc t ht

/-- leaf tangents: `τ` at leaf `i`, zero elsewhere -/
noncomputable def oneTan (lt : List Ty) (i : Nat) (τ : DVec ℝ) : List (DVec ℝ) :=
  (List.range lt.length).map (fun j => if j = i then τ else DVec.zero ((lt.getD j (.V 0)).tdim))

theorem oneTan_self (lt : List Ty) (i : Nat) (τ : DVec ℝ) (hi : i < lt.length) : (oneTan lt i τ).getD i [] = τ := by
  simp [oneTan, hi]

theorem oneTan_other (lt : List Ty) (i j : Nat) (τ : DVec ℝ) (hj : j ≠ i) :
    (oneTan lt i τ).getD j [] = [] ∨ ∃ n, (oneTan lt i τ).getD j [] = DVec.zero n := by
  by_cases h : j < lt.length
  · right; exact ⟨(lt.getD j (.V 0)).tdim, by simp [oneTan, h, hj]⟩
  · left; simp [oneTan, h]

theorem ddot_dzero_right (a : DVec ℝ) (n : Nat) : DVec.dot a (DVec.zero n) = 0 := by
  rw [ddot_comm]; simp only [DVec.zero, k_real, Nat.cast_zero]; exact ddot_replicate_zero a n

/-- **`.grad` is what the pairing theorems talk about**: with the tangent `τ` at leaf `i` and zero elsewhere, the pairing of the reverse
sweep's output with the leaf tangents is `⟨grad of leaf i, τ⟩` (`grad` = the accumulated sum of contributions, as `.grad` is). -/
theorem pairSum_oneTan (lt : List Ty) (i n : Nat) (τ : DVec ℝ) (hi : i < lt.length) (cs : List (Nat × DVec ℝ))
    (hlen : ∀ c ∈ cs, c.1 = i → c.2.length = n) :
    pairSum (oneTan lt i τ) cs = DVec.dot (grad n i cs) τ := by
  unfold grad
  have key : ∀ (acc : DVec ℝ), acc.length = n → ∀ cs' : List (Nat × DVec ℝ), (∀ c ∈ cs', c.1 = i → c.2.length = n) →
      DVec.dot (cs'.foldl (fun acc c => if c.1 == i then DVec.add acc c.2 else acc) acc) τ
        = DVec.dot acc τ + pairSum (oneTan lt i τ) cs' := by
    intro acc hacc cs'
    induction cs' generalizing acc with
    | nil => intro _; simp [pairSum]
    | cons c cs' ih =>
      intro hc
      simp only [List.foldl_cons]
      have hc' : ∀ c' ∈ cs', c'.1 = i → c'.2.length = n := fun c' h => hc c' (List.mem_cons_of_mem _ h)
      have hps : pairSum (oneTan lt i τ) (c :: cs') = DVec.dot c.2 ((oneTan lt i τ).getD c.1 []) + pairSum (oneTan lt i τ) cs' := by
        simp [pairSum]
      by_cases hci : c.1 = i
      · have hl := hc c (List.mem_cons_self) hci
        simp only [hci, beq_self_eq_true, if_true]
        rw [ih _ (by rw [length_dadd _ _ (by rw [hacc, hl]), hacc]) hc', ddot_add_left _ _ _ (by rw [hacc, hl]), hps, hci,
          oneTan_self lt i τ hi]
        ring
      · have : (c.1 == i) = false := by simpa using hci
        simp only [this, Bool.false_eq_true, if_false]
        rw [ih _ hacc hc', hps]
        rcases oneTan_other lt i c.1 τ hci with h | ⟨m, h⟩
        · rw [h]; simp
        · rw [h, ddot_dzero_right]; simp
  have := key (DVec.zero n) (by simp [DVec.zero]) cs hlen
  rw [this]
  have : DVec.dot (DVec.zero n : DVec ℝ) τ = 0 := by simp only [DVec.zero, k_real, Nat.cast_zero]; exact ddot_replicate_zero τ n
  rw [this]; ring

theorem mulF_ident_left (g : Grp) (X : DVec ℝ) (hX : X.length = g.gdim) : mulF g (identG g) X = X := by
  cases g
  · obtain ⟨a0, a1, a2, a3, rfl⟩ := len4 _ hX
    simp [mulF, identG, qt, Quat.toList, Quat.mul, Quat.mk', Vec3.smul, Vec3.add, Vec3.cross, Vec3.dot, Quat.vec]
  · obtain ⟨a0, a1, a2, a3, a4, a5, a6, rfl⟩ := len7 _ hX
    simp [mulF, identG, SE3Mul, toSE3, qt, v3, SE3.toList, Vec3.toList, Quat.toList]
    lie_unfold
    simp
  · obtain ⟨a0, a1, a2, a3, a4, rfl⟩ := len5 _ hX
    simp [mulF, identG, RxSO3Mul, toRx, qt, RxSO3.toList, Quat.toList]
    lie_unfold
    simp
  · obtain ⟨a0, a1, a2, a3, a4, a5, a6, a7, rfl⟩ := len8 _ hX
    simp [mulF, identG, Sim3Mul, toSim, qt, v3, Sim3.toList, Vec3.toList, Quat.toList]
    lie_unfold
    simp

theorem retrF_zero (g : Grp) (eps : ℝ) (heps : 0 < eps) (X : DVec ℝ) (hX : X.length = g.gdim) :
    retrF g eps X (DVec.zero g.adim) = X := by
  rw [retrF, expF_zero g eps heps, mulF_ident_left g X hX]

/-- the leaf values are valid stored values of their types -/
def PointOK (lt : List Ty) (env0 : List (DVec ℝ)) : Prop :=
  env0.length = lt.length ∧ ∀ j t, lt[j]? = some t → (env0.getD j []).length = t.dim ∧
    ∀ g, t = .G g → UnitQ g (env0.getD j []) ∧ ScalePos g (env0.getD j [])

/-- the leaves, with leaf `i` moved along a curve `γ` and all other leaves fixed -/
noncomputable def curveEnv (env0 : List (DVec ℝ)) (i : Nat) (γ : ℝ → DVec ℝ) (t : ℝ) : List (DVec ℝ) := env0.set i (γ t)

theorem lt_of_getElem? {α : Type} (l : List α) (i : Nat) (a : α) (h : l[i]? = some a) : i < l.length := by
  by_contra hn; simp [List.getElem?_eq_none (not_lt.mp hn)] at h

theorem curveEnv_zero (env0 : List (DVec ℝ)) (i : Nat) (γ : ℝ → DVec ℝ) (hi : i < env0.length) (h0 : γ 0 = env0.getD i []) :
    curveEnv env0 i γ 0 = env0 := by
  have e : env0.getD i [] = env0[i] := by simp [List.getD_eq_getElem?_getD, hi]
  simp only [curveEnv, h0, e]
  exact List.set_getElem_self hi

theorem unitQ_identG (g : Grp) : UnitQ g (identG g) := by cases g <;> simp [UnitQ, identG, qt, Quat.normSq]
theorem scalePos_identG (g : Grp) : ScalePos g (identG g) := by cases g <;> simp [ScalePos, identG]

theorem oneTan_length (lt : List Ty) (i : Nat) (τ : DVec ℝ) (j : Nat) (t : Ty) (hj : lt[j]? = some t) (ti : Ty)
    (hi : lt[i]? = some ti) (hτ : τ.length = ti.tdim) : ((oneTan lt i τ).getD j []).length = t.tdim := by
  have hjl : j < lt.length := lt_of_getElem? _ _ _ hj
  have hjt : lt[j] = t := by rw [List.getElem?_eq_getElem hjl] at hj; exact Option.some.inj hj
  by_cases hji : j = i
  · subst hji
    rw [hi] at hj; cases hj
    simp [oneTan, hjl, hτ]
  · simp [oneTan, hjl, hji, hjt, DVec.zero]

/-- **`.grad` of a leaf pairs with a direction to the derivative along any curve of that leaf with that tangent.**  `p`: any well-typed
program with vector-valued output whose transcendental nodes are evaluated in proved regimes; leaf `i` (of any type `ti`) moves along
`γ` with `γ(0)` = its value and tangent `τ` (`CurveOK`: left-perturbation tangent if `ti` is a group type), all other leaves fixed. -/
theorem leaf_curve_gradient_exact (dJ : DJ ℝ) (hdJ : DJShape dJ) (eps : ℝ) (heps : 0 < eps) (lt : List Ty) (env0 : List (DVec ℝ))
    (hP : PointOK lt env0) (i : Nat) (ti : Ty) (hi : lt[i]? = some ti) (γ : ℝ → DVec ℝ) (τ : DVec ℝ)
    (hγ : CurveOK ti γ τ) (hγ0 : γ 0 = env0.getD i []) (hτ : τ.length = ti.tdim)
    (p : Prog) (hR : Regimes dJ eps env0 p) (n : Nat) (hty : tyOf lt p = some (.V n)) (c : DVec ℝ) (hc : c.length = n) :
    HasDerivAt (fun t => DVec.dot c (eval eps (curveEnv env0 i γ t) p))
      (DVec.dot (grad ti.dim i (backprop dJ eps env0 p c)) τ) 0 := by
  have hil : i < lt.length := lt_of_getElem? _ _ _ hi
  have hie : i < env0.length := by rw [hP.1]; exact hil
  have h0 := curveEnv_zero env0 i γ hie hγ0
  have hE : EnvOK lt (curveEnv env0 i γ 0) (oneTan lt i τ) := by
    rw [h0]
    intro j t hj
    exact ⟨(hP.2 j t hj).1, oneTan_length lt i τ j t hj ti hi hτ⟩
  have hleaf : ∀ j t, lt[j]? = some t → CurveOK t (fun s => (curveEnv env0 i γ s).getD j []) ((oneTan lt i τ).getD j []) := by
    intro j t hj
    have hjl : j < lt.length := lt_of_getElem? _ _ _ hj
    by_cases hji : j = i
    · subst hji
      rw [hi] at hj; cases hj
      have e : (fun s => (curveEnv env0 j γ s).getD j []) = γ := by
        funext s; simp [curveEnv, hie]
      rw [e, oneTan_self lt j τ hil]
      exact hγ
    · have e : (fun s => (curveEnv env0 i γ s).getD j []) = fun _ => env0.getD j [] := by
        funext s; simp [curveEnv, List.getD_eq_getElem?_getD, List.getElem?_set_ne (Ne.symm hji)]
      have hjt : lt[j] = t := by rw [List.getElem?_eq_getElem hjl] at hj; exact Option.some.inj hj
      have et : (oneTan lt i τ).getD j [] = DVec.zero t.tdim := by simp [oneTan, hjl, hji, hjt]
      rw [e, et]
      have hXj := hP.2 j t hj
      cases t with
      | G g' =>
        exact curveOK_G.mpr ⟨gtangent_const g' _, (hXj.2 g' rfl).1, (hXj.2 g' rfl).2, by simp [DVec.zero, Ty.tdim]⟩
      | V m =>
        refine curveOK_V.mpr ⟨?_, fun _ => hXj.1, by simp [DVec.zero, Ty.tdim]⟩
        intro k hk
        rw [show nth (DVec.zero (Ty.V m).tdim : DVec ℝ) k = 0 from nth_dzero _ _]
        exact hasDerivAt_const _ _
  have hR' : Regimes dJ eps (curveEnv env0 i γ 0) p := by rw [h0]; exact hR
  have := program_gradient_exact_of_regimes dJ hdJ eps heps lt (curveEnv env0 i γ) (oneTan lt i τ) hE hleaf p hR' n hty c hc
  rw [h0] at this
  rw [pairSum_oneTan lt i ti.dim τ hil _ (fun c' hc' hci =>
    backprop_lengths dJ hdJ eps lt env0 p (.V n) c hty hc c' hc' ti (by rw [hci]; exact hi))] at this
  exact this

/-- **`X.grad` is the left-perturbation Jacobian** — the property in its own terms.  Move group leaf `i` along the true retraction
`t ↦ Exp(t·τ) @ Xᵢ` (all other leaves fixed).  Then `d/dt ⟨c, p(…, Exp(t·τ) @ Xᵢ, …)⟩ |_{t=0} = ⟨gradᵢ, τ⟩`, where `gradᵢ` is the
accumulated sum of everything the reverse sweep deposits at leaf `i` (its `.grad`, of storage length `gdim`; only the first `adim`
slots pair with `τ`, and the last slot is `0` by `grad_last_slot_zero`). -/
theorem leaf_gradient_exact (dJ : DJ ℝ) (hdJ : DJShape dJ) (eps : ℝ) (heps : 0 < eps) (lt : List Ty) (env0 : List (DVec ℝ))
    (hP : PointOK lt env0) (i : Nat) (g : Grp) (hi : lt[i]? = some (.G g)) (τ : DVec ℝ) (hτ : τ.length = g.adim)
    (p : Prog) (hR : Regimes dJ eps env0 p) (n : Nat) (hty : tyOf lt p = some (.V n)) (c : DVec ℝ) (hc : c.length = n) :
    HasDerivAt (fun t => DVec.dot c (eval eps (curveEnv env0 i (fun s => retrF g eps (env0.getD i []) (DVec.smul s τ)) t) p))
      (DVec.dot (grad g.gdim i (backprop dJ eps env0 p c)) τ) 0 := by
  have hXi := hP.2 i _ hi
  have h0 : (fun s => retrF g eps (env0.getD i []) (DVec.smul s τ)) 0 = env0.getD i [] := by
    show retrF g eps (env0.getD i []) (DVec.smul 0 τ) = env0.getD i []
    rw [smul_zero_left, hτ, retrF_zero g eps heps _ hXi.1]
  refine leaf_curve_gradient_exact dJ hdJ eps heps lt env0 hP i (.G g) hi _ τ ?_ h0 hτ p hR n hty c hc
  refine curveOK_G.mpr ⟨retr_tangent g eps heps _ τ hτ, ?_, ?_, hτ⟩
  · have h0' : retrF g eps (env0.getD i []) (DVec.smul 0 τ) = env0.getD i [] := h0
    rw [h0']; exact (hXi.2 g rfl).1
  · have h0' : retrF g eps (env0.getD i []) (DVec.smul 0 τ) = env0.getD i [] := h0
    rw [h0']; exact (hXi.2 g rfl).2

/-- **`.grad` of a Euclidean / Lie-algebra leaf is the ordinary gradient**: move leaf `i` along the straight line `t ↦ xᵢ + t·d`. -/
theorem vleaf_gradient_exact (dJ : DJ ℝ) (hdJ : DJShape dJ) (eps : ℝ) (heps : 0 < eps) (lt : List Ty) (env0 : List (DVec ℝ))
    (hP : PointOK lt env0) (i m : Nat) (hi : lt[i]? = some (.V m)) (d : DVec ℝ) (hd : d.length = m)
    (p : Prog) (hR : Regimes dJ eps env0 p) (n : Nat) (hty : tyOf lt p = some (.V n)) (c : DVec ℝ) (hc : c.length = n) :
    HasDerivAt (fun t => DVec.dot c (eval eps (curveEnv env0 i (fun s => DVec.add (env0.getD i []) (DVec.smul s d)) t) p))
      (DVec.dot (grad m i (backprop dJ eps env0 p c)) d) 0 := by
  have hXi : (env0.getD i []).length = m := (hP.2 i _ hi).1
  have hsl : ∀ s : ℝ, (DVec.smul s d).length = m := fun s => by simp [DVec.smul, hd]
  have h0 : (fun s => DVec.add (env0.getD i []) (DVec.smul s d)) 0 = env0.getD i [] := by
    show DVec.add (env0.getD i []) (DVec.smul 0 d) = env0.getD i []
    rw [smul_zero_left, hd, ← hXi, dadd_dzero]
  refine leaf_curve_gradient_exact dJ hdJ eps heps lt env0 hP i (.V m) hi _ d ?_ h0 hd p hR n hty c hc
  refine curveOK_V.mpr ⟨?_, fun s => by rw [length_dadd _ _ (by rw [hXi, hsl]), hXi], hd⟩
  intro k hk
  have e : (fun s => nth (DVec.add (env0.getD i []) (DVec.smul s d)) k) = fun s => nth (env0.getD i []) k + s * nth d k := by
    funext s; rw [nth_dadd _ _ _ (by rw [hXi, hsl]), nth_smul]
  rw [e]
  simpa using ((hasDerivAt_id (0:ℝ)).mul_const (nth d k)).const_add (nth (env0.getD i []) k)

/-- programs over the algebraic operators have no regime conditions -/
theorem regimes_of_algebraic (dJ : DJ ℝ) (eps : ℝ) (env0 : List (DVec ℝ)) (p : Prog) (hp : p.algebraic = true) :
    Regimes dJ eps env0 p := by
  induction p with
  | leaf i => trivial
  | un o g p ih =>
    simp only [Prog.algebraic, Bool.and_eq_true] at hp
    refine ⟨ih hp.2, ?_⟩
    cases o <;> simp at hp <;> trivial
  | bin o g p q ihp ihq =>
    simp only [Prog.algebraic, Bool.and_eq_true] at hp
    refine ⟨ihp hp.1.2, ihq hp.2, ?_⟩
    cases o <;> simp at hp <;> trivial

/-- the chart `Log(Y · Y⁻¹)` around the value itself evaluates its `Log` at the identity element: always a proved regime -/
theorem logRegime_chart (g : Grp) (eps : ℝ) (Y : DVec ℝ) (hu : UnitQ g Y) (hs : ScalePos g Y) :
    LogRegime g eps (mulF g Y (invF g Y)) := by
  rw [mulF_invF g Y hu (scalePos_nz hs)]
  cases g
  · right; simp [identG, qt, Quat.vec]
  · right; simp [identG, qt, Quat.vec]
  · right; simp [identG, qt, Quat.vec]
  · exact ⟨by simp [identG, v3], by simp [identG, qt, Quat.vec], by simp [identG]⟩

/-- **the reverse sweep is per leaf**: what `.grad` of leaf `i` receives does not depend on which other leaves are differentiated —
discarding the contributions addressed to any set of other leaves (`requires_grad = False` on them) leaves `grad i` unchanged -/
theorem grad_filter (n i : Nat) (S : Nat → Bool) (hS : S i = true) (cs : List (Nat × DVec ℝ)) :
    grad n i (cs.filter (fun c => S c.1)) = grad n i cs := by
  unfold grad
  have key : ∀ (acc : DVec ℝ) (cs' : List (Nat × DVec ℝ)),
      (cs'.filter (fun c => S c.1)).foldl (fun acc c => if c.1 == i then DVec.add acc c.2 else acc) acc
        = cs'.foldl (fun acc c => if c.1 == i then DVec.add acc c.2 else acc) acc := by
    intro acc cs'
    induction cs' generalizing acc with
    | nil => rfl
    | cons c cs' ih =>
      by_cases h : S c.1 = true
      · simp only [List.filter_cons, h, if_true, List.foldl_cons]; exact ih _
      · have hne : (c.1 == i) = false := by
          cases hci : (c.1 == i) with
          | false => rfl
          | true =>
            have : c.1 = i := by simpa using hci
            rw [this] at h; exact absurd hS h
        simp only [List.filter_cons, h, Bool.false_eq_true, if_false, List.foldl_cons, hne]
        exact ih _
  exact key _ cs

end PP.AD
