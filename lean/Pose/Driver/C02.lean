import Pose.Wire
import Pose.Driver.Lie
import Pose.Model.LogExp
import Pose.Model.LieDispatch
/-!
# Driver ops for C02 (Log is the principal inverse of Exp)

`<Type>.<op> <eps> nums…` in PyPose storage order, like the ops of `Pose/Driver/Lie.lean`.
Single `Log` / `Exp` / `Inv` / `rxso3.Ws` / `so3.JlInv` are served by `opsLie`; here are the compositions
the property is about, the regime classifiers and the determinant guard of `Sim3_Log`.
-/
namespace PP.Driver
open PP Wire

def nat1 (n : Nat) : List B := [BigF.ofNat n]

/-- `lie.<op> <ltype> <dtype> <rank> <extents…> <numbers…>` → `<ltype'> <rank'> <extents'…> <numbers…>` or `err <kind>` -/
def lieOp (f : LType → DType → List Nat → List B → Except String (LType × List Nat × List B)) : Handler := fun ts =>
  match ts with
  | tn :: dn :: rk :: rest => do
      let t ← match LType.ofName tn with | some t => pure t | none => throw s!"bad-ltype:{tn}"
      let d ← match DType.ofName dn with | some d => pure d | none => throw s!"bad-dtype:{dn}"
      let r ← nat rk
      let (dims, numToks) ← take r rest
      let shape ← nats dims
      let xs ← nums numToks
      let (t', shape', ys) ← f t d shape xs
      let head := t'.name :: toString shape'.length :: shape'.map toString
      return " ".intercalate (head ++ ys.map BigF.toWire)
  | _ => throw "arity"

def opsC02 : List (String × Handler) := [
  -- Exp ∘ Log
  ("SO3.ExpLog", withEps 4 fun e l => (SO3ExpLog e (qt l)).toList),
  ("SE3.ExpLog", withEps 7 fun e l => (SE3ExpLog e (toSE3 l)).toList),
  ("RxSO3.ExpLog", withEps 5 fun e l => (RxSO3ExpLog e (toRx l)).toList),
  ("Sim3.ExpLog", withEps 8 fun e l => (Sim3ExpLog e (toSim l)).toList),
  -- Log ∘ Exp
  ("so3.LogExp", withEps 3 fun e l => (so3LogExp e (v3 l)).toList),
  ("se3.LogExp", withEps 6 fun e l => (se3LogExp e (tose3 l)).toList),
  ("rxso3.LogExp", withEps 4 fun e l => (rxso3LogExp e (torx l)).toList),
  ("sim3.LogExp", withEps 7 fun e l => (sim3LogExp e (tosim l)).toList),
  -- Log of the element with the negated quaternion
  ("SO3.LogNeg", withEps 4 fun e l => (SO3LogNeg e (qt l)).toList),
  ("SE3.LogNeg", withEps 7 fun e l => (SE3LogNeg e (toSE3 l)).toList),
  ("RxSO3.LogNeg", withEps 5 fun e l => (RxSO3LogNeg e (toRx l)).toList),
  ("Sim3.LogNeg", withEps 8 fun e l => (Sim3LogNeg e (toSim l)).toList),
  -- Log of the inverse
  ("SO3.LogInv", withEps 4 fun e l => (SO3LogInv e (qt l)).toList),
  ("SE3.LogInv", withEps 7 fun e l => (SE3LogInv e (toSE3 l)).toList),
  ("RxSO3.LogInv", withEps 5 fun e l => (RxSO3LogInv e (toRx l)).toList),
  ("Sim3.LogInv", withEps 8 fun e l => (Sim3LogInv e (toSim l)).toList),
  -- regimes / guard
  ("SO3.LogRegime", withEps 4 fun e l => nat1 (so3LogRegime e (qt l))),
  ("rxso3.WsRegime", withEps 2 fun e l => nat1 (rxso3WsRegime e (l.getD 0 default) (l.getD 1 default))),
  ("Sim3.LogDet", withEps 8 fun e l => [sim3LogDet e (toSim l)]),
  -- glue: dispatch / shapes / dtype threshold (Pose/Model/LieDispatch.lean)
  ("lie.Log", lieOp fun t d sh xs => lieLogD t d sh xs),
  ("lie.Exp", lieOp fun t d sh xs => lieExpD t d sh xs),
  ("lie.Inv", lieOp fun t _ sh xs => lieInv t sh xs),
  ("dtype.eps", fun ts => match ts with
      | [dn] => match DType.ofName dn with
          | some d => .ok (BigF.toWire (d.eps : B))
          | none => .error s!"bad-dtype:{dn}"
      | _ => .error "arity"),
  ("ltype.table", fun ts => match ts with
      | [tn] => match LType.ofName tn with
          | some t => .ok (fmtNats [t.dimension, t.embedding, t.manifold, if t.onManifold then 1 else 0])
          | none => .error s!"bad-ltype:{tn}"
      | _ => .error "arity"),
  ("rxso3.WsInv", withEps 4 fun e l => (rxso3Ws e (torx l)).inv.toList)
]

end PP.Driver
