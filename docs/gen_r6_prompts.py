import json, glob, os
props = {json.loads(l)["id"]: json.loads(l) for l in open("/verif/properties.jsonl")}
KNOWN = open("/tmp/prompts/seed5_C03.txt").read()
k0 = KNOWN.index("The harness under test is known to generate")
k1 = KNOWN.index("Try to find a realistic developer mistake")
KNOWN = KNOWN[k0:k1]
EXTRA = ("Since then the harness has also added: several objects built with optional arguments OMITTED and used interleaved (state shared through "
"mutable defaults); every dtype an entry point accepts (int8…int64, uint8, bool, float16, bfloat16, complex64) with result-dtype checks; user callbacks "
"returning their argument or a view of it; every other public operation of the module (forward and backward, single item and all-1 batches) interleaved "
"between two identical calls compared bit for bit (module constants written in place); user subclasses that override PROPERTIES rather than methods; "
"sizes 2^17+37, 2^18+1, 2^18+37, 2^20+1 with the last n % 2^k items re-evaluated; ties at selection boundaries judged by admissible tie-breaks; inputs in "
"the band between round-off and 1e-5 (hidden allclose / isclose / clamp(min=eps) heuristics), exact power-of-two scale covariance; every non-empty subset "
"of operands requiring grad through backward / autograd.grad / jacrev(argnums); finiteness of every returned value (a NaN is reported with its input); the "
"24 cube rotations and other exact-tie configurations on symmetric exactly representable data. ")
for pid, p in props.items():
    prev = []
    for d in sorted(glob.glob(f"/verif/seeded/{pid}-*")):
        m = json.load(open(d + "/meta.json"))
        prev.append((m.get("summary", "")[:420].replace("\n", " "), str(m.get("needs", ""))[:260].replace("\n", " ")))
    wt, out = f"/tmp/r6wt_{pid}", f"/tmp/r6_{pid}"
    files = ", ".join(p["anchors"]["files"])
    prevtxt = "\n".join(f'  ({i+1}) "{s}" — needs: {n}' for i, (s, n) in enumerate(prev))
    txt = f"""You are testing an (unseen) verification harness for the Python library pypose in two ways: whether it stays QUIET on behaviour-preserving refactors, and whether it DETECTS a subtle regression. You have your own scratch git worktree of the library at {wt} (a checkout of the current code; run Python with /venv/bin/python and make the worktree importable with PYTHONPATH={wt}). Work ONLY inside {wt} and {out}/ (create it). Do not read or touch /verif, /repo or anything under /root/.claude. NEVER use git stash (the stash is shared between worktrees); restore with `git -C {wt} checkout -- .`.

The property under test ({pid}: "{p['title']}"):
"{p['statement']}"
Quantified over: {p['quantifier']['text']}
Code the property depends on (start here): {files}

Library test-suite: `cd {wt} && /venv/bin/python -m pytest -q -p no:cacheprovider --timeout=900 tests 2>&1 | tail -15` — on the clean tree expect 85 passed, 7 failed, 2 skipped (the 7 failures need network downloads: test_aperpe, test_icp_laserscan_data, test_icp_broadcasting1/2, test_epnp_nonbatch/highdim/random — they do not count; a couple of optimizer tests are randomly flaky, re-run them alone if one fails). To save time you may run only the test directories that import the files you touch, plus once the whole suite at the end for each deliverable.

PART 1 — TWO HARMLESS REWRITES (deliver as {out}/H1/ and {out}/H2/). Each is a realistic refactor a maintainer could merge into the code the property depends on, under which EVERY clause of the property above still holds for EVERY input in its quantifier, and the public behaviour (values up to a few units of floating-point round-off where arithmetic is reordered, dtypes, shapes, types, which tensors are fresh vs aliased, which arguments are mutated, exceptions raised for invalid input, documented defaults) is unchanged. Make them NON-trivial and different in kind from each other, e.g.: an algebraically equivalent reformulation that changes the rounding of intermediate results by an ulp or two (a*b+a*c → a*(b+c), division by x → multiplication by 1/x only if equally accurate, sum order, einsum ↔ matmul ↔ explicit broadcasting, cat ↔ stack + reshape); masked assignment ↔ torch.where (with safe arguments so no NaN leaks into values or gradients); loop ↔ vectorised form; hoisting a common sub-expression; replacing an in-place op on a fresh temporary by an out-of-place op or vice versa (only where no caller-visible tensor is affected); splitting / merging helper functions; reordering independent statements; renaming private attributes together with all their uses; clone() → contiguous-copy idioms that still copy; a cache that is keyed and invalidated correctly. Do NOT change thresholds, branch boundaries, tolerances, defaults, series orders or anything that alters results beyond round-off, and do not touch code paths whose exact floating-point result the property's statement pins down ("exactly", "bit for bit", "identical") unless your rewrite is bit-exact there. For each: patch.diff (`git -C {wt} diff`, must apply with `git apply` to a clean checkout), meta.json {{"property": "{pid}", "kind": "harmless", "summary": "...", "why_property_still_holds": "...argument per clause...", "max_observed_difference": "...", "files": [...], "ran": [...]}}, and equiv.py: a program that, run first on the clean tree with `--record {out}/Hk/ref.pt` and then on the patched tree with `--compare {out}/Hk/ref.pt`, evaluates the touched entry points on a broad spread of inputs inside the quantifier (both dtypes, batches, near every threshold, degenerate cases, gradients where the property is about gradients) and exits 0 iff every result agrees within 4 ulps of the result magnitude (bit-exact where you claim bit-exactness) and metadata is identical. The full test-suite outcome must be identical with and without the patch.

PART 2 — ONE BREAKING CHANGE (deliver as {out}/S/). A plausible bug a developer could introduce during a refactor or "optimisation" in the library source under {wt}/pypose that (a) BREAKS the property above on inputs inside its quantifier, (b) still imports and passes the library's test-suite exactly as the unchanged code does, (c) needs something SPECIFIC to manifest (an unusual input band, a particular length / shape / dtype / layout, a multi-step history, a second call on the same object, two cooperating sites) — not something ordinary use exposes at once. Prefer subtle over blatant. Deliver patch.diff, demo.py (run as `PYTHONPATH=<tree> /venv/bin/python demo.py`; exits 0 on the unchanged code and 1 with the change, checking the property's own statement with an independent oracle — the mathematical law, mpmath, brute force — on the triggering input, not a comparison with stored outputs), meta.json {{"property": "{pid}", "kind": "breaking", "summary": "...", "needs": "...", "files": [...], "ran": [...]}}.
Earlier testers already delivered these changes for this property — yours must differ from all of them in function / code path / clause AND in the kind of trigger:
{prevtxt}
{KNOWN}{EXTRA}Try to find a realistic developer mistake that a careful harness built around ALL of those could STILL miss: a clause of the statement that is easy to overlook; an interaction of three conditions; metadata (dtype / shape / type / requires_grad / is_leaf / memory ownership) wrong while values are right; error in only ONE of several equivalent spellings of the same operation; dependence on the order of items inside a batch or list; a wrong result only when two different optional features are combined; an early-return for an 'obviously trivial' input; loss of precision that stays inside common tolerances except where the property's own tolerance is tight; a documented default silently changed.

Apply and verify each deliverable separately on a clean tree (demo / equiv outcomes, test-suite outcome), leave the worktree CLEAN at the end. Final message: for H1, H2 and S one paragraph each (what, why harmless / what it needs, exact verification outcomes).
"""
    open(f"/tmp/prompts/r6_{pid}.txt", "w").write(txt)
print("ok", len(props))
