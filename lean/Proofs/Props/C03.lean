import Proofs.Lemmas.Quat
import Proofs.Lemmas.GroupAux
import Proofs.Lemmas.So3Exp
import Mathlib.Tactic.Positivity
import Mathlib.Tactic.NormNum
import Mathlib.Analysis.SpecialFunctions.Exp
import Mathlib.Analysis.Real.Pi.Bounds
/-!
# C03 — group product, inverse, identity and point action obey the group laws

All statements are over the model of `operation.py` at `α = ℝ` (exact arithmetic); "valid" means
unit quaternion (and positive scale).  Accumulated floating-point round-off is outside the theorem
and is measured by the correspondence check.
-/
namespace PP
open Vec3 Quat Mat3

def SO3.Valid (X : Quat ℝ) : Prop := X.normSq = 1
def SE3.Valid (X : SE3 ℝ) : Prop := X.q.normSq = 1
def RxSO3.Valid (X : RxSO3 ℝ) : Prop := X.q.normSq = 1 ∧ 0 < X.s
def Sim3.Valid (X : Sim3 ℝ) : Prop := X.q.normSq = 1 ∧ 0 < X.s

/-! ## SO3 -/
theorem SO3_mul_assoc (X Y Z : Quat ℝ) : (X.mul Y).mul Z = X.mul (Y.mul Z) := Quat.mul_assoc' X Y Z
theorem SO3_one_mul (X : Quat ℝ) : (SO3one : Quat ℝ).mul X = X := Quat.one_mul' X
theorem SO3_mul_one (X : Quat ℝ) : X.mul SO3one = X := Quat.mul_one' X
theorem SO3_mul_inv (X : Quat ℝ) (h : SO3.Valid X) : X.mul X.conj = SO3one := by
  rw [Quat.mul_conj, h]; ext <;> simp [SO3one, Quat.one]
theorem SO3_inv_mul (X : Quat ℝ) (h : SO3.Valid X) : X.conj.mul X = SO3one := by
  rw [Quat.conj_mul, h]; ext <;> simp [SO3one, Quat.one]
theorem SO3_valid_mul (X Y : Quat ℝ) (hX : SO3.Valid X) (hY : SO3.Valid Y) : SO3.Valid (X.mul Y) := by
  unfold SO3.Valid at *; rw [Quat.normSq_mul, hX, hY]; ring
theorem SO3_valid_inv (X : Quat ℝ) (hX : SO3.Valid X) : SO3.Valid X.conj := by
  unfold SO3.Valid at *; rw [Quat.normSq_conj, hX]
theorem SO3_valid_one : SO3.Valid (SO3one : Quat ℝ) := by unfold SO3.Valid SO3one; lie_unfold; ring
theorem SO3_act_mul (X Y : Quat ℝ) (hX : SO3.Valid X) (hY : SO3.Valid Y) (p : Vec3 ℝ) :
    (X.mul Y).act p = X.act (Y.act p) := Quat.act_mul X Y hX hY p
/-- `matrix()` (columns = images of the basis vectors) times `p` is `Act X p` — for every quaternion. -/
theorem SO3_matrix_mulVec (X : Quat ℝ) (p : Vec3 ℝ) : (SO3matrix X).mulVec p = X.act p := by
  unfold SO3matrix; ext <;> lie_unfold <;> ring
/-- homomorphism: `matrix (X·Y) = matrix X · matrix Y` -/
theorem SO3_matrix_mul (X Y : Quat ℝ) (hX : SO3.Valid X) (hY : SO3.Valid Y) :
    SO3matrix (X.mul Y) = (SO3matrix X).mul (SO3matrix Y) := by
  have key : ∀ p, (SO3matrix (X.mul Y)).mulVec p = ((SO3matrix X).mul (SO3matrix Y)).mulVec p := by
    intro p
    have : ((SO3matrix X).mul (SO3matrix Y)).mulVec p = (SO3matrix X).mulVec ((SO3matrix Y).mulVec p) := by
      ext <;> lie_unfold <;> ring
    rw [this, SO3_matrix_mulVec, SO3_matrix_mulVec, SO3_matrix_mulVec, SO3_act_mul X Y hX hY]
  have h0 := key Vec3.e0; have h1 := key Vec3.e1; have h2 := key Vec3.e2
  simp only [Mat3.mulVec, Vec3.dot, Vec3.e0, Vec3.e1, Vec3.e2, k_real, Nat.cast_zero, Nat.cast_one, mul_one,
    mul_zero, add_zero, zero_add, Vec3.mk.injEq] at h0 h1 h2
  ext <;> simp [h0, h1, h2]
theorem SO3_matrix_one : SO3matrix (SO3one : Quat ℝ) = Mat3.one := by
  unfold SO3matrix SO3one; ext <;> lie_unfold <;> ring
theorem SO3_matrix_conj (X : Quat ℝ) : SO3matrix X.conj = (SO3matrix X).transpose := by
  unfold SO3matrix; ext <;> lie_unfold <;> ring
/-- the matrix of a unit quaternion is orthogonal: `R Rᵀ = 1` -/
theorem SO3_matrix_orthogonal (X : Quat ℝ) (hX : SO3.Valid X) :
    (SO3matrix X).mul (SO3matrix X).transpose = Mat3.one := by
  rw [← SO3_matrix_conj, ← SO3_matrix_mul X X.conj hX (SO3_valid_inv X hX), SO3_mul_inv X hX, SO3_matrix_one]

/-! ## SE3 -/
theorem SE3_mul_assoc (X Y Z : SE3 ℝ) (hX : SE3.Valid X) (hY : SE3.Valid Y) :
    SE3Mul (SE3Mul X Y) Z = SE3Mul X (SE3Mul Y Z) := by
  unfold SE3Mul
  ext1
  · simp only []
    rw [Quat.act_mul X.q Y.q hX hY, Quat.act_add, vadd_assoc]
  · exact Quat.mul_assoc' _ _ _
theorem SE3_one_mul (X : SE3 ℝ) : SE3Mul SE3one X = X := by
  unfold SE3Mul SE3one; ext <;> lie_unfold <;> ring
theorem SE3_mul_one (X : SE3 ℝ) : SE3Mul X SE3one = X := by
  unfold SE3Mul SE3one; ext <;> lie_unfold <;> ring
theorem SE3_mul_inv (X : SE3 ℝ) (h : SE3.Valid X) : SE3Mul X (SE3Inv X) = SE3one := by
  unfold SE3Mul SE3Inv SE3one
  ext1
  · simp only []
    rw [Quat.act_neg, Quat.act_conj_act X.q h]; ext <;> lie_unfold <;> ring
  · simp only []; rw [Quat.mul_conj, h]; ext <;> simp [Quat.one]
theorem SE3_inv_mul (X : SE3 ℝ) (h : SE3.Valid X) : SE3Mul (SE3Inv X) X = SE3one := by
  unfold SE3Mul SE3Inv SE3one
  ext1
  · simp only []; ext <;> lie_unfold <;> ring
  · simp only []; rw [Quat.conj_mul, h]; ext <;> simp [Quat.one]
theorem SE3_valid_mul (X Y : SE3 ℝ) (hX : SE3.Valid X) (hY : SE3.Valid Y) : SE3.Valid (SE3Mul X Y) :=
  SO3_valid_mul X.q Y.q hX hY
theorem SE3_valid_inv (X : SE3 ℝ) (hX : SE3.Valid X) : SE3.Valid (SE3Inv X) := SO3_valid_inv X.q hX
theorem SE3_act_mul (X Y : SE3 ℝ) (hX : SE3.Valid X) (hY : SE3.Valid Y) (p : Vec3 ℝ) :
    SE3Act (SE3Mul X Y) p = SE3Act X (SE3Act Y p) := by
  unfold SE3Act SE3Mul; simp only []
  rw [Quat.act_mul X.q Y.q hX hY, Quat.act_add, vadd_assoc]
theorem SE3_act4_mul (X Y : SE3 ℝ) (hX : SE3.Valid X) (hY : SE3.Valid Y) (p : Vec3 ℝ) (w : ℝ) :
    SE3Act4 (SE3Mul X Y) p w = SE3Act4 X (SE3Act4 Y p w).1 (SE3Act4 Y p w).2 := by
  unfold SE3Act4 SE3Mul; simp only [Prod.mk.injEq, and_true]
  rw [Quat.act_mul X.q Y.q hX hY, Quat.act_add, Quat.act_smul]; ext <;> lie_unfold <;> ring
/-- `Act4` with `w = 1` is `Act`; with `w = 0` it is the pure rotation (directions). -/
theorem SE3_act4_one (X : SE3 ℝ) (p : Vec3 ℝ) : SE3Act4 X p 1 = (SE3Act X p, 1) := by
  unfold SE3Act4 SE3Act; simp only [Prod.mk.injEq, and_true]; ext <;> lie_unfold <;> ring
theorem SE3_act4_zero (X : SE3 ℝ) (p : Vec3 ℝ) : SE3Act4 X p 0 = (X.q.act p, 0) := by
  unfold SE3Act4; simp only [Prod.mk.injEq, and_true]; ext <;> lie_unfold <;> ring

/-- the 4×4 `matrix()` times a homogeneous vector is `Act4` (any act4 that is linear, here SE3). -/
theorem SE3_matrix_mulVec (X : SE3 ℝ) (p : Vec3 ℝ) (w : ℝ) :
    (SE3matrix X).mulVec [p.x, p.y, p.z, w] =
      [(SE3Act4 X p w).1.x, (SE3Act4 X p w).1.y, (SE3Act4 X p w).1.z, (SE3Act4 X p w).2] := by
  simp only [SE3matrix, matrix4, SE3Act4, DMat.mulVec, DVec.dot, DVec.sum, List.map, List.zipWith, List.foldl]
  lie_unfold
  simp only [List.cons.injEq, and_true]
  refine ⟨?_, ?_, ?_, ?_⟩ <;> ring
/-- blocks of `matrix()`: rotation block = `SO3matrix (rotation X)`, last column = translation, last row (0 0 0 1). -/
theorem SE3_matrix_blocks (X : SE3 ℝ) :
    SE3matrix X =
      [ (SO3matrix X.q).r0.toList ++ [X.t.x], (SO3matrix X.q).r1.toList ++ [X.t.y],
        (SO3matrix X.q).r2.toList ++ [X.t.z], [0, 0, 0, 1] ] := by
  simp only [SE3matrix, matrix4, SE3Act4, SO3matrix, Vec3.toList, List.cons_append, List.nil_append]
  lie_unfold
  simp only [List.cons.injEq, and_true]
  (repeat' apply And.intro) <;> ring

/-! ## RxSO3 -/
theorem RxSO3_mul_assoc (X Y Z : RxSO3 ℝ) : RxSO3Mul (RxSO3Mul X Y) Z = RxSO3Mul X (RxSO3Mul Y Z) := by
  unfold RxSO3Mul; ext1
  · exact Quat.mul_assoc' _ _ _
  · simp only []; ring
theorem RxSO3_one_mul (X : RxSO3 ℝ) : RxSO3Mul RxSO3one X = X := by
  unfold RxSO3Mul RxSO3one; ext <;> lie_unfold <;> ring
theorem RxSO3_mul_one (X : RxSO3 ℝ) : RxSO3Mul X RxSO3one = X := by
  unfold RxSO3Mul RxSO3one; ext <;> lie_unfold <;> ring
theorem RxSO3_mul_inv (X : RxSO3 ℝ) (h : RxSO3.Valid X) : RxSO3Mul X (RxSO3Inv X) = RxSO3one := by
  unfold RxSO3Mul RxSO3Inv RxSO3one; ext1
  · simp only []; rw [Quat.mul_conj, h.1]; ext <;> simp [Quat.one]
  · simp only [k_real, Nat.cast_one]; field_simp [ne_of_gt h.2]
theorem RxSO3_inv_mul (X : RxSO3 ℝ) (h : RxSO3.Valid X) : RxSO3Mul (RxSO3Inv X) X = RxSO3one := by
  unfold RxSO3Mul RxSO3Inv RxSO3one; ext1
  · simp only []; rw [Quat.conj_mul, h.1]; ext <;> simp [Quat.one]
  · simp only [k_real, Nat.cast_one]; field_simp [ne_of_gt h.2]
theorem RxSO3_valid_mul (X Y : RxSO3 ℝ) (hX : RxSO3.Valid X) (hY : RxSO3.Valid Y) :
    RxSO3.Valid (RxSO3Mul X Y) := ⟨SO3_valid_mul X.q Y.q hX.1 hY.1, mul_pos hX.2 hY.2⟩
theorem RxSO3_valid_inv (X : RxSO3 ℝ) (hX : RxSO3.Valid X) : RxSO3.Valid (RxSO3Inv X) :=
  ⟨SO3_valid_inv X.q hX.1, by simp only [RxSO3Inv, k_real, Nat.cast_one]; exact one_div_pos.mpr hX.2⟩
theorem RxSO3_act_mul (X Y : RxSO3 ℝ) (hX : RxSO3.Valid X) (hY : RxSO3.Valid Y) (p : Vec3 ℝ) :
    RxSO3Act (RxSO3Mul X Y) p = RxSO3Act X (RxSO3Act Y p) := by
  unfold RxSO3Act RxSO3Mul; simp only []
  rw [Quat.act_mul X.q Y.q hX.1 hY.1, Quat.act_smul]; ext <;> lie_unfold <;> ring

/-! ## Sim3 -/
theorem Sim3_mul_assoc (X Y Z : Sim3 ℝ) (hX : Sim3.Valid X) (hY : Sim3.Valid Y) :
    Sim3Mul (Sim3Mul X Y) Z = Sim3Mul X (Sim3Mul Y Z) := by
  unfold Sim3Mul; ext1
  · simp only []
    rw [Quat.act_mul X.q Y.q hX.1 hY.1, Quat.act_add, Quat.act_smul]; ext <;> lie_unfold <;> ring
  · exact Quat.mul_assoc' _ _ _
  · simp only []; ring
theorem Sim3_one_mul (X : Sim3 ℝ) : Sim3Mul Sim3one X = X := by
  unfold Sim3Mul Sim3one; ext <;> lie_unfold <;> ring
theorem Sim3_mul_one (X : Sim3 ℝ) : Sim3Mul X Sim3one = X := by
  unfold Sim3Mul Sim3one; ext <;> lie_unfold <;> ring
theorem Sim3_mul_inv (X : Sim3 ℝ) (h : Sim3.Valid X) : Sim3Mul X (Sim3Inv X) = Sim3one := by
  have hs : X.s ≠ 0 := ne_of_gt h.2
  unfold Sim3Mul Sim3Inv Sim3one; ext1
  · simp only []
    rw [Quat.act_neg, Quat.act_smul, Quat.act_conj_act X.q h.1]
    ext <;> lie_unfold <;> field_simp <;> ring
  · simp only []; rw [Quat.mul_conj, h.1]; ext <;> simp [Quat.one]
  · simp only [k_real, Nat.cast_one]; field_simp
theorem Sim3_inv_mul (X : Sim3 ℝ) (h : Sim3.Valid X) : Sim3Mul (Sim3Inv X) X = Sim3one := by
  have hs : X.s ≠ 0 := ne_of_gt h.2
  unfold Sim3Mul Sim3Inv Sim3one; ext1
  · simp only []; ext <;> lie_unfold <;> ring
  · simp only []; rw [Quat.conj_mul, h.1]; ext <;> simp [Quat.one]
  · simp only [k_real, Nat.cast_one]; field_simp
theorem Sim3_valid_mul (X Y : Sim3 ℝ) (hX : Sim3.Valid X) (hY : Sim3.Valid Y) : Sim3.Valid (Sim3Mul X Y) :=
  ⟨SO3_valid_mul X.q Y.q hX.1 hY.1, mul_pos hX.2 hY.2⟩
theorem Sim3_valid_inv (X : Sim3 ℝ) (hX : Sim3.Valid X) : Sim3.Valid (Sim3Inv X) :=
  ⟨SO3_valid_inv X.q hX.1, by simp only [Sim3Inv, k_real, Nat.cast_one]; exact one_div_pos.mpr hX.2⟩
theorem Sim3_act_mul (X Y : Sim3 ℝ) (hX : Sim3.Valid X) (hY : Sim3.Valid Y) (p : Vec3 ℝ) :
    Sim3Act (Sim3Mul X Y) p = Sim3Act X (Sim3Act Y p) := by
  unfold Sim3Act Sim3Mul; simp only []
  rw [Quat.act_mul X.q Y.q hX.1 hY.1, Quat.act_add, Quat.act_smul]; ext <;> lie_unfold <;> ring
theorem Sim3_act4_mul (X Y : Sim3 ℝ) (hX : Sim3.Valid X) (hY : Sim3.Valid Y) (p : Vec3 ℝ) (w : ℝ) :
    Sim3Act4 (Sim3Mul X Y) p w = Sim3Act4 X (Sim3Act4 Y p w).1 (Sim3Act4 Y p w).2 := by
  unfold Sim3Act4 Sim3Mul; simp only [Prod.mk.injEq, and_true]
  rw [Quat.act_mul X.q Y.q hX.1 hY.1, Quat.act_add, Quat.act_smul, Quat.act_smul]; ext <;> lie_unfold <;> ring
theorem Sim3_matrix_mulVec (X : Sim3 ℝ) (p : Vec3 ℝ) (w : ℝ) :
    (Sim3matrix X).mulVec [p.x, p.y, p.z, w] =
      [(Sim3Act4 X p w).1.x, (Sim3Act4 X p w).1.y, (Sim3Act4 X p w).1.z, (Sim3Act4 X p w).2] := by
  simp only [Sim3matrix, matrix4, Sim3Act4, DMat.mulVec, DVec.dot, DVec.sum, List.map, List.zipWith, List.foldl]
  lie_unfold
  simp only [List.cons.injEq, and_true]
  refine ⟨?_, ?_, ?_, ?_⟩ <;> ring
/-- blocks of the Sim3 `matrix()`: `s·R`, `t`, `(0 0 0 1)` -/
theorem Sim3_matrix_blocks (X : Sim3 ℝ) :
    Sim3matrix X =
      [ ((SO3matrix X.q).r0.smul X.s).toList ++ [X.t.x], ((SO3matrix X.q).r1.smul X.s).toList ++ [X.t.y],
        ((SO3matrix X.q).r2.smul X.s).toList ++ [X.t.z], [0, 0, 0, 1] ] := by
  simp only [Sim3matrix, matrix4, Sim3Act4, SO3matrix, Vec3.toList, List.cons_append, List.nil_append]
  lie_unfold
  simp only [List.cons.injEq, and_true]
  (repeat' apply And.intro) <;> ring

/-! ## 4×4 homomorphism, RxSO3 matrix / homogeneous action, Sim3 `Act4` at `w = 1, 0`
(clauses an independent review found stated for SO3 / SE3 only) -/

theorem Sim3_act4_one (X : Sim3 ℝ) (p : Vec3 ℝ) : Sim3Act4 X p 1 = (Sim3Act X p, 1) := by
  unfold Sim3Act4 Sim3Act; simp only [Prod.mk.injEq, and_true]; ext <;> lie_unfold <;> ring
theorem Sim3_act4_zero (X : Sim3 ℝ) (p : Vec3 ℝ) : Sim3Act4 X p 0 = ((X.q.act p).smul X.s, 0) := by
  unfold Sim3Act4; simp only [Prod.mk.injEq, and_true]; ext <;> lie_unfold <;> ring
theorem RxSO3_act4_eq (X : RxSO3 ℝ) (p : Vec3 ℝ) (w : ℝ) : RxSO3Act4 X p w = (RxSO3Act X p, w) := rfl
theorem SO3_act4_mul (X Y : Quat ℝ) (hX : SO3.Valid X) (hY : SO3.Valid Y) (p : Vec3 ℝ) (w : ℝ) :
    SO3Act4 (X.mul Y) p w = SO3Act4 X (SO3Act4 Y p w).1 (SO3Act4 Y p w).2 := by
  unfold SO3Act4; simp only [Prod.mk.injEq, and_true]; exact Quat.act_mul X Y hX hY p
theorem RxSO3_act4_mul (X Y : RxSO3 ℝ) (hX : RxSO3.Valid X) (hY : RxSO3.Valid Y) (p : Vec3 ℝ) (w : ℝ) :
    RxSO3Act4 (RxSO3Mul X Y) p w = RxSO3Act4 X (RxSO3Act4 Y p w).1 (RxSO3Act4 Y p w).2 := by
  unfold RxSO3Act4 RxSO3Mul; simp only [Prod.mk.injEq, and_true]
  rw [Quat.act_mul X.q Y.q hX.1 hY.1, Quat.act_smul]; ext <;> lie_unfold <;> ring

theorem RxSO3_matrix_mulVec (X : RxSO3 ℝ) (p : Vec3 ℝ) (w : ℝ) :
    (RxSO3matrix X).mulVec [p.x, p.y, p.z, w] =
      [(RxSO3Act4 X p w).1.x, (RxSO3Act4 X p w).1.y, (RxSO3Act4 X p w).1.z, (RxSO3Act4 X p w).2] := by
  simp only [RxSO3matrix, matrix4, RxSO3Act4, DMat.mulVec, DVec.dot, DVec.sum, List.map, List.zipWith, List.foldl]
  lie_unfold
  simp only [List.cons.injEq, and_true]
  refine ⟨?_, ?_, ?_, ?_⟩ <;> ring
/-- blocks of the RxSO3 `matrix()`: `s·R`, zero translation column, `(0 0 0 1)` -/
theorem RxSO3_matrix_blocks (X : RxSO3 ℝ) :
    RxSO3matrix X =
      [ ((SO3matrix X.q).r0.smul X.s).toList ++ [0], ((SO3matrix X.q).r1.smul X.s).toList ++ [0],
        ((SO3matrix X.q).r2.smul X.s).toList ++ [0], [0, 0, 0, 1] ] := by
  simp only [RxSO3matrix, matrix4, RxSO3Act4, SO3matrix, Vec3.toList, List.cons_append, List.nil_append]
  lie_unfold
  simp only [List.cons.injEq, and_true]
  (repeat' apply And.intro) <;> first | ring | (simp <;> ring)

/-- **`matrix()` is a homomorphism — SE3** -/
theorem SE3_matrix_mul (X Y : SE3 ℝ) (hX : SE3.Valid X) (hY : SE3.Valid Y) :
    SE3matrix (SE3Mul X Y) = DMat.mul (SE3matrix X) (SE3matrix Y) := by
  rw [SE3_matrix_blocks, SE3_matrix_blocks X, SE3_matrix_blocks Y]
  simp only [SE3Mul]
  rw [SO3_matrix_mul X.q Y.q hX hY]
  have ht := SO3_matrix_mulVec X.q Y.t
  rw [← ht]
  simp only [DMat.mul, DMat.transpose, DMat.ncols, DMat.col, Vec3.toList, List.cons_append, List.nil_append,
    List.length_cons, List.length_nil, List.range, List.range.loop, List.map, List.getD_cons_zero, List.getD_cons_succ,
    DVec.dot, DVec.sum, List.zipWith, List.foldl]
  lie_unfold
  simp only [List.cons.injEq, and_true]
  (repeat' apply And.intro) <;> ring

/-- **`matrix()` is a homomorphism — RxSO3** -/
theorem RxSO3_matrix_mul (X Y : RxSO3 ℝ) (hX : RxSO3.Valid X) (hY : RxSO3.Valid Y) :
    RxSO3matrix (RxSO3Mul X Y) = DMat.mul (RxSO3matrix X) (RxSO3matrix Y) := by
  rw [RxSO3_matrix_blocks, RxSO3_matrix_blocks X, RxSO3_matrix_blocks Y]
  simp only [RxSO3Mul]
  rw [SO3_matrix_mul X.q Y.q hX.1 hY.1]
  simp only [DMat.mul, DMat.transpose, DMat.ncols, DMat.col, Vec3.toList, List.cons_append, List.nil_append,
    List.length_cons, List.length_nil, List.range, List.range.loop, List.map, List.getD_cons_zero, List.getD_cons_succ,
    DVec.dot, DVec.sum, List.zipWith, List.foldl]
  lie_unfold
  simp only [List.cons.injEq, and_true]
  (repeat' apply And.intro) <;> ring

/-- **`matrix()` is a homomorphism — Sim3** -/
theorem Sim3_matrix_mul (X Y : Sim3 ℝ) (hX : Sim3.Valid X) (hY : Sim3.Valid Y) :
    Sim3matrix (Sim3Mul X Y) = DMat.mul (Sim3matrix X) (Sim3matrix Y) := by
  rw [Sim3_matrix_blocks, Sim3_matrix_blocks X, Sim3_matrix_blocks Y]
  simp only [Sim3Mul]
  rw [SO3_matrix_mul X.q Y.q hX.1 hY.1]
  have ht := SO3_matrix_mulVec X.q Y.t
  rw [← ht]
  simp only [DMat.mul, DMat.transpose, DMat.ncols, DMat.col, Vec3.toList, List.cons_append, List.nil_append,
    List.length_cons, List.length_nil, List.range, List.range.loop, List.map, List.getD_cons_zero, List.getD_cons_succ,
    DVec.dot, DVec.sum, List.zipWith, List.foldl]
  lie_unfold
  simp only [List.cons.injEq, and_true]
  (repeat' apply And.intro) <;> ring

/-! ## Invariants over arbitrarily long operation histories

`HOp` is one update applied to an element: product with a valid element on either side, inverse, or the
retraction `Exp(a)·X` (what `add_` / `+` / `Retr` do) with an *arbitrary* tangent vector.  On the
closed-form branch `Exp` is exactly unit; on the Taylor branch (`θ ≤ eps`) its norm defect is
`≤ eps⁶` (`so3Exp_normSq_near`), so after any history containing `n` retractions the squared norm is
within `(1+eps⁶)ⁿ − 1` of one (≈ `n·10⁻⁹⁴` for float64) — validity in exact arithmetic. -/

inductive HOp where
  | mulL (Y : Quat ℝ) : HOp
  | mulR (Y : Quat ℝ) : HOp
  | inv : HOp
  | retr (a : Vec3 ℝ) : HOp

def HOp.ok : HOp → Prop
  | .mulL Y => SO3.Valid Y
  | .mulR Y => SO3.Valid Y
  | _ => True

noncomputable def HOp.apply (eps : ℝ) (X : Quat ℝ) : HOp → Quat ℝ
  | .mulL Y => Y.mul X
  | .mulR Y => X.mul Y
  | .inv => X.conj
  | .retr a => SO3Retr eps X a

def HOp.isRetr : HOp → Bool
  | .retr _ => true
  | _ => false

theorem HOp.step_bound (eps : ℝ) (h0 : 0 ≤ eps) (h1 : eps ≤ 1) (X : Quat ℝ) (B : ℝ) (hB : 0 ≤ B)
    (hX : |X.normSq - 1| ≤ B) (op : HOp) (hop : op.ok) :
    |(op.apply eps X).normSq - 1| ≤ (if op.isRetr then (1 + B) * (1 + eps ^ 6) - 1 else B) := by
  cases op with
  | mulL Y => simp only [HOp.apply, HOp.isRetr, Bool.false_eq_true, if_false]
              rw [Quat.normSq_mul, (hop : Y.normSq = 1)]; simpa using hX
  | mulR Y => simp only [HOp.apply, HOp.isRetr, Bool.false_eq_true, if_false]
              rw [Quat.normSq_mul, (hop : Y.normSq = 1)]; simpa using hX
  | inv => simp only [HOp.apply, HOp.isRetr, Bool.false_eq_true, if_false]; rw [Quat.normSq_conj]; exact hX
  | retr a =>
    simp only [HOp.apply, HOp.isRetr, if_true, SO3Retr]
    rw [Quat.normSq_mul]
    have hm := so3Exp_normSq_near eps a h0 h1
    set m := (so3Exp eps a).normSq
    set n := X.normSq
    have e : m * n - 1 = (m - 1) * (n - 1) + (m - 1) + (n - 1) := by ring
    have hd : 0 ≤ eps ^ 6 := by positivity
    rw [e]
    calc |(m - 1) * (n - 1) + (m - 1) + (n - 1)|
        ≤ |(m - 1) * (n - 1)| + |m - 1| + |n - 1| := abs_add_three _ _ _
      _ = |m - 1| * |n - 1| + |m - 1| + |n - 1| := by rw [abs_mul]
      _ ≤ eps ^ 6 * B + eps ^ 6 + B := by
          have := mul_le_mul hm hX (abs_nonneg _) hd
          linarith
      _ = (1 + B) * (1 + eps ^ 6) - 1 := by ring

/-- **Validity over any history.** Starting from a valid element, after any list of products with valid
elements, inverses and retractions by arbitrary tangent vectors, the squared quaternion norm is within
`(1+eps⁶)^n − 1` of 1, where `n` is the number of retractions in the history. No bound on the length. -/
theorem history_valid (eps : ℝ) (h0 : 0 ≤ eps) (h1 : eps ≤ 1) (ops : List HOp) (hops : ∀ op ∈ ops, op.ok)
    (X : Quat ℝ) (hX : SO3.Valid X) :
    |(ops.foldl (HOp.apply eps) X).normSq - 1| ≤ (1 + eps ^ 6) ^ (ops.countP HOp.isRetr) - 1 := by
  have hd : 0 ≤ eps ^ 6 := by positivity
  have gen : ∀ (ops : List HOp), (∀ op ∈ ops, op.ok) → ∀ (X : Quat ℝ) (j : ℕ),
      |X.normSq - 1| ≤ (1 + eps ^ 6) ^ j - 1 →
      |(ops.foldl (HOp.apply eps) X).normSq - 1| ≤ (1 + eps ^ 6) ^ (j + ops.countP HOp.isRetr) - 1 := by
    intro ops
    induction ops with
    | nil => intro _ X j h; simpa using h
    | cons op rest ih =>
      intro hall X j h
      have hB : 0 ≤ (1 + eps ^ 6) ^ j - 1 := by
        have : (1 : ℝ) ≤ (1 + eps ^ 6) ^ j := one_le_pow₀ (by linarith)
        linarith
      have hs := HOp.step_bound eps h0 h1 X _ hB h op (hall op (by simp))
      simp only [List.foldl_cons]
      by_cases hr : op.isRetr = true
      · simp only [hr, if_true] at hs
        have := ih (fun o ho => hall o (by simp [ho])) (op.apply eps X) (j + 1) (by
          rw [pow_succ]; convert hs using 1; ring)
        simpa [List.countP_cons, hr, Nat.add_assoc, Nat.add_comm 1] using this
      · have hr' : op.isRetr = false := by simpa using hr
        simp only [hr', Bool.false_eq_true, if_false] at hs
        have := ih (fun o ho => hall o (by simp [ho])) (op.apply eps X) j hs
        simpa [List.countP_cons, hr'] using this
  have := gen ops hops X 0 (by simp [show X.normSq = 1 from hX])
  simpa using this


/-- scales stay positive under products, inverses and retractions (`exp σ > 0`) -/
theorem RxSO3_scale_retr_pos (eps : ℝ) (X : RxSO3 ℝ) (hX : 0 < X.s) (a : rxso3 ℝ) :
    0 < (RxSO3Retr eps X a).s := by
  simp only [RxSO3Retr, RxSO3Mul, rxso3Exp, exp_real]; exact mul_pos (Real.exp_pos _) hX
theorem Sim3_scale_retr_pos (eps : ℝ) (X : Sim3 ℝ) (hX : 0 < X.s) (a : sim3 ℝ) :
    0 < (Sim3Retr eps X a).s := by
  simp only [Sim3Retr, Sim3Mul, sim3Exp, rxso3Exp, exp_real]; exact mul_pos (Real.exp_pos _) hX


/-! ### the same for SE3: the quaternion block of every SE3 operation is the quaternion operation -/
inductive SE3Op where
  | mulL (Y : SE3 ℝ) : SE3Op
  | mulR (Y : SE3 ℝ) : SE3Op
  | inv : SE3Op
  | retr (a : se3 ℝ) : SE3Op

def SE3Op.ok : SE3Op → Prop
  | .mulL Y => SE3.Valid Y
  | .mulR Y => SE3.Valid Y
  | _ => True

noncomputable def SE3Op.apply (eps : ℝ) (X : SE3 ℝ) : SE3Op → SE3 ℝ
  | .mulL Y => SE3Mul Y X
  | .mulR Y => SE3Mul X Y
  | .inv => SE3Inv X
  | .retr a => SE3Retr eps X a

def SE3Op.toH : SE3Op → HOp
  | .mulL Y => .mulL Y.q
  | .mulR Y => .mulR Y.q
  | .inv => .inv
  | .retr a => .retr a.phi

theorem SE3Op.apply_q (eps : ℝ) (X : SE3 ℝ) (op : SE3Op) : (op.apply eps X).q = op.toH.apply eps X.q := by
  cases op <;> rfl

theorem SE3Op.fold_q (eps : ℝ) (ops : List SE3Op) : ∀ X : SE3 ℝ,
    (ops.foldl (SE3Op.apply eps) X).q = (ops.map SE3Op.toH).foldl (HOp.apply eps) X.q := by
  induction ops with
  | nil => intro X; rfl
  | cons op rest ih => intro X; simp only [List.foldl_cons, List.map_cons]; rw [ih, SE3Op.apply_q]

/-- **Validity over any SE3 history**: the quaternion block stays within `(1+eps⁶)ⁿ − 1` of unit norm after any
list of products (either side), inverses and retractions, `n` = number of retractions. -/
theorem SE3_history_valid (eps : ℝ) (h0 : 0 ≤ eps) (h1 : eps ≤ 1) (ops : List SE3Op) (hops : ∀ op ∈ ops, op.ok)
    (X : SE3 ℝ) (hX : SE3.Valid X) :
    |(ops.foldl (SE3Op.apply eps) X).q.normSq - 1|
      ≤ (1 + eps ^ 6) ^ (ops.countP fun o => o.toH.isRetr) - 1 := by
  rw [SE3Op.fold_q]
  have hq : SO3.Valid X.q := hX
  have hok : ∀ o ∈ ops.map SE3Op.toH, o.ok := by
    intro o ho
    rw [List.mem_map] at ho
    obtain ⟨op, hop, rfl⟩ := ho
    have := hops op hop
    cases op <;> first | trivial | exact this
  have := history_valid eps h0 h1 (ops.map SE3Op.toH) hok X.q hq
  rwa [List.countP_map] at this

/-! ### the same for RxSO3: the quaternion block of every RxSO3 operation is the quaternion operation -/
inductive RxSO3Op where
  | mulL (Y : RxSO3 ℝ) : RxSO3Op
  | mulR (Y : RxSO3 ℝ) : RxSO3Op
  | inv : RxSO3Op
  | retr (a : rxso3 ℝ) : RxSO3Op

def RxSO3Op.ok : RxSO3Op → Prop
  | .mulL Y => RxSO3.Valid Y
  | .mulR Y => RxSO3.Valid Y
  | _ => True

noncomputable def RxSO3Op.apply (eps : ℝ) (X : RxSO3 ℝ) : RxSO3Op → RxSO3 ℝ
  | .mulL Y => RxSO3Mul Y X
  | .mulR Y => RxSO3Mul X Y
  | .inv => RxSO3Inv X
  | .retr a => RxSO3Retr eps X a

def RxSO3Op.toH : RxSO3Op → HOp
  | .mulL Y => .mulL Y.q
  | .mulR Y => .mulR Y.q
  | .inv => .inv
  | .retr a => .retr a.phi

theorem RxSO3Op.apply_q (eps : ℝ) (X : RxSO3 ℝ) (op : RxSO3Op) : (op.apply eps X).q = op.toH.apply eps X.q := by
  cases op <;> rfl

theorem RxSO3Op.fold_q (eps : ℝ) (ops : List RxSO3Op) : ∀ X : RxSO3 ℝ,
    (ops.foldl (RxSO3Op.apply eps) X).q = (ops.map RxSO3Op.toH).foldl (HOp.apply eps) X.q := by
  induction ops with
  | nil => intro X; rfl
  | cons op rest ih => intro X; simp only [List.foldl_cons, List.map_cons]; rw [ih, RxSO3Op.apply_q]

/-- **Validity over any RxSO3 history**: the quaternion block stays within `(1+eps⁶)ⁿ − 1` of unit norm after any
list of products (either side), inverses and retractions, `n` = number of retractions. -/
theorem RxSO3_history_valid (eps : ℝ) (h0 : 0 ≤ eps) (h1 : eps ≤ 1) (ops : List RxSO3Op) (hops : ∀ op ∈ ops, op.ok)
    (X : RxSO3 ℝ) (hX : RxSO3.Valid X) :
    |(ops.foldl (RxSO3Op.apply eps) X).q.normSq - 1|
      ≤ (1 + eps ^ 6) ^ (ops.countP fun o => o.toH.isRetr) - 1 := by
  rw [RxSO3Op.fold_q]
  have hq : SO3.Valid X.q := hX.1
  have hok : ∀ o ∈ ops.map RxSO3Op.toH, o.ok := by
    intro o ho
    rw [List.mem_map] at ho
    obtain ⟨op, hop, rfl⟩ := ho
    have := hops op hop
    cases op <;> first | trivial | exact this.1
  have := history_valid eps h0 h1 (ops.map RxSO3Op.toH) hok X.q hq
  rwa [List.countP_map] at this

/-- **Scale stays positive over any RxSO3 history** (exact arithmetic): products of positive scales, reciprocals
and `exp σ` factors. -/
theorem RxSO3_history_scale_pos (eps : ℝ) (ops : List RxSO3Op) (hops : ∀ op ∈ ops, op.ok) :
    ∀ X : RxSO3 ℝ, 0 < X.s → 0 < (ops.foldl (RxSO3Op.apply eps) X).s := by
  induction ops with
  | nil => intro X h; exact h
  | cons op rest ih =>
    intro X hX
    simp only [List.foldl_cons]
    apply ih (fun o ho => hops o (by simp [ho]))
    have hop := hops op (by simp)
    cases op with
    | mulL Y => exact mul_pos (hop : RxSO3.Valid Y).2 hX
    | mulR Y => exact mul_pos hX (hop : RxSO3.Valid Y).2
    | inv => simp only [RxSO3Op.apply, RxSO3Inv, k_real, Nat.cast_one]; exact one_div_pos.mpr hX
    | retr a => exact RxSO3_scale_retr_pos eps X hX a

/-! ### the same for Sim3: the quaternion block of every Sim3 operation is the quaternion operation -/
inductive Sim3Op where
  | mulL (Y : Sim3 ℝ) : Sim3Op
  | mulR (Y : Sim3 ℝ) : Sim3Op
  | inv : Sim3Op
  | retr (a : sim3 ℝ) : Sim3Op

def Sim3Op.ok : Sim3Op → Prop
  | .mulL Y => Sim3.Valid Y
  | .mulR Y => Sim3.Valid Y
  | _ => True

noncomputable def Sim3Op.apply (eps : ℝ) (X : Sim3 ℝ) : Sim3Op → Sim3 ℝ
  | .mulL Y => Sim3Mul Y X
  | .mulR Y => Sim3Mul X Y
  | .inv => Sim3Inv X
  | .retr a => Sim3Retr eps X a

def Sim3Op.toH : Sim3Op → HOp
  | .mulL Y => .mulL Y.q
  | .mulR Y => .mulR Y.q
  | .inv => .inv
  | .retr a => .retr a.phi

theorem Sim3Op.apply_q (eps : ℝ) (X : Sim3 ℝ) (op : Sim3Op) : (op.apply eps X).q = op.toH.apply eps X.q := by
  cases op <;> rfl

theorem Sim3Op.fold_q (eps : ℝ) (ops : List Sim3Op) : ∀ X : Sim3 ℝ,
    (ops.foldl (Sim3Op.apply eps) X).q = (ops.map Sim3Op.toH).foldl (HOp.apply eps) X.q := by
  induction ops with
  | nil => intro X; rfl
  | cons op rest ih => intro X; simp only [List.foldl_cons, List.map_cons]; rw [ih, Sim3Op.apply_q]

/-- **Validity over any Sim3 history**: the quaternion block stays within `(1+eps⁶)ⁿ − 1` of unit norm after any
list of products (either side), inverses and retractions, `n` = number of retractions. -/
theorem Sim3_history_valid (eps : ℝ) (h0 : 0 ≤ eps) (h1 : eps ≤ 1) (ops : List Sim3Op) (hops : ∀ op ∈ ops, op.ok)
    (X : Sim3 ℝ) (hX : Sim3.Valid X) :
    |(ops.foldl (Sim3Op.apply eps) X).q.normSq - 1|
      ≤ (1 + eps ^ 6) ^ (ops.countP fun o => o.toH.isRetr) - 1 := by
  rw [Sim3Op.fold_q]
  have hq : SO3.Valid X.q := hX.1
  have hok : ∀ o ∈ ops.map Sim3Op.toH, o.ok := by
    intro o ho
    rw [List.mem_map] at ho
    obtain ⟨op, hop, rfl⟩ := ho
    have := hops op hop
    cases op <;> first | trivial | exact this.1
  have := history_valid eps h0 h1 (ops.map Sim3Op.toH) hok X.q hq
  rwa [List.countP_map] at this

/-- **Scale stays positive over any Sim3 history** (exact arithmetic): products of positive scales, reciprocals
and `exp σ` factors. -/
theorem Sim3_history_scale_pos (eps : ℝ) (ops : List Sim3Op) (hops : ∀ op ∈ ops, op.ok) :
    ∀ X : Sim3 ℝ, 0 < X.s → 0 < (ops.foldl (Sim3Op.apply eps) X).s := by
  induction ops with
  | nil => intro X h; exact h
  | cons op rest ih =>
    intro X hX
    simp only [List.foldl_cons]
    apply ih (fun o ho => hops o (by simp [ho]))
    have hop := hops op (by simp)
    cases op with
    | mulL Y => exact mul_pos (hop : Sim3.Valid Y).2 hX
    | mulR Y => exact mul_pos hX (hop : Sim3.Valid Y).2
    | inv => simp only [Sim3Op.apply, Sim3Inv, k_real, Nat.cast_one]; exact one_div_pos.mpr hX
    | retr a => exact Sim3_scale_retr_pos eps X hX a

/-! ## Histories in *rounded* arithmetic

`history_valid` is about exact arithmetic. The property says "up to accumulated round-off", so here the
history is the one a floating-point machine computes: every computed state `X'` is only *near* the
exact result of the operation applied to the previous computed state (norm-wise relative distance `≤ γ`;
the operands of the products are only near-unit, `|‖Y‖ − 1| ≤ γ`). The theorem bounds the norm drift
after ANY number of operations: `(1−γ)^{2n} ≤ ‖X_n‖ ≤ (1+γ)^{2n}`, hence `1 − 2nγ ≤ ‖X_n‖ ≤ e^{2nγ}` —
linear growth, no blow-up. The per-step hypothesis is what the correspondence check measures on every
step of every sampled history (γ = 8·eps of the dtype). -/


/-- a near-unit operand -/
def HOp.okR (γ : ℝ) : HOp → Prop
  | .mulL Y => |Y.nrm - 1| ≤ γ
  | .mulR Y => |Y.nrm - 1| ≤ γ
  | _ => True

/-- the history a rounding machine computes: the list pairs every operation with the state the machine
stored after it; each stored state is within relative distance `γ` of the exact result of the operation on
the *previously stored* state -/
def Computed (eps γ : ℝ) : Quat ℝ → List (HOp × Quat ℝ) → Prop
  | _, [] => True
  | X, (op, X') :: rest =>
      op.okR γ ∧ Quat.dist2 X' (op.apply eps X) ≤ γ ^ 2 * (op.apply eps X).normSq ∧ Computed eps γ X' rest

/-- the last stored state -/
def lastState (X : Quat ℝ) (h : List (HOp × Quat ℝ)) : Quat ℝ := h.foldl (fun _ p => p.2) X

/-- one exact operation changes the norm by a factor in `[1−γ, 1+γ]` -/
theorem HOp.exact_nrm (eps γ : ℝ) (h0 : 0 ≤ eps) (h1 : eps ≤ 1) (heg : eps ^ 6 ≤ γ)
    (X : Quat ℝ) (op : HOp) (hop : op.okR γ) :
    (1 - γ) * X.nrm ≤ (op.apply eps X).nrm ∧ (op.apply eps X).nrm ≤ (1 + γ) * X.nrm := by
  have hX := Quat.nrm_nonneg X
  have hγ : 0 ≤ γ := le_trans (by positivity) heg
  cases op with
  | mulL Y =>
    simp only [HOp.apply, Quat.nrm_mul]
    have := abs_le.mp (hop : |Y.nrm - 1| ≤ γ)
    constructor <;> nlinarith
  | mulR Y =>
    simp only [HOp.apply, Quat.nrm_mul]
    have := abs_le.mp (hop : |Y.nrm - 1| ≤ γ)
    constructor <;> nlinarith
  | inv =>
    simp only [HOp.apply, Quat.nrm_conj]
    constructor <;> nlinarith
  | retr a =>
    simp only [HOp.apply, SO3Retr, Quat.nrm_mul]
    have := so3Exp_nrm_near eps h0 h1 a
    constructor <;> nlinarith

/-- **Norm drift over any computed history.** After `n` operations carried out by a machine whose every
step is relatively `γ`-accurate, the stored element's norm is within `(1∓γ)^{2n}` of the initial one —
for every `n`, every mix of products (either side), inverses and retractions. -/
theorem rounded_history_norm (eps γ : ℝ) (h0 : 0 ≤ eps) (h1 : eps ≤ 1) (hγ1 : γ ≤ 1) (heg : eps ^ 6 ≤ γ)
    (h : List (HOp × Quat ℝ)) : ∀ (X : Quat ℝ), Computed eps γ X h →
      (1 - γ) ^ (2 * h.length) * X.nrm ≤ (lastState X h).nrm ∧
      (lastState X h).nrm ≤ (1 + γ) ^ (2 * h.length) * X.nrm := by
  have hγ : 0 ≤ γ := le_trans (by positivity) heg
  induction h with
  | nil => intro X _; simp [lastState]
  | cons p rest ih =>
    intro X hc
    obtain ⟨op, X'⟩ := p
    obtain ⟨hop, hd, hrest⟩ := hc
    have hE := HOp.exact_nrm eps γ h0 h1 heg X op hop
    have hN := Quat.nrm_near (op.apply eps X) X' γ hγ hd
    have hXn := Quat.nrm_nonneg X
    have hEn := Quat.nrm_nonneg (op.apply eps X)
    have lo : (1 - γ) ^ 2 * X.nrm ≤ X'.nrm := by nlinarith [mul_le_mul_of_nonneg_left hE.1 (by linarith : 0 ≤ 1 - γ)]
    have hi : X'.nrm ≤ (1 + γ) ^ 2 * X.nrm := by nlinarith [mul_le_mul_of_nonneg_left hE.2 (by linarith : 0 ≤ 1 + γ)]
    have := ih X' hrest
    have e : lastState X ((op, X') :: rest) = lastState X' rest := by simp [lastState]
    rw [e]
    have hp1 : 0 ≤ (1 - γ) ^ (2 * rest.length) := pow_nonneg (by linarith) _
    have hp2 : 0 ≤ (1 + γ) ^ (2 * rest.length) := pow_nonneg (by linarith) _
    have l1 : (2 * ((op, X') :: rest).length) = 2 * rest.length + 2 := by simp [Nat.mul_add]
    rw [l1, pow_add, pow_add]
    constructor
    · calc (1 - γ) ^ (2 * rest.length) * (1 - γ) ^ 2 * X.nrm
          = (1 - γ) ^ (2 * rest.length) * ((1 - γ) ^ 2 * X.nrm) := by ring
        _ ≤ (1 - γ) ^ (2 * rest.length) * X'.nrm := mul_le_mul_of_nonneg_left lo hp1
        _ ≤ _ := this.1
    · calc (lastState X' rest).nrm ≤ (1 + γ) ^ (2 * rest.length) * X'.nrm := this.2
        _ ≤ (1 + γ) ^ (2 * rest.length) * ((1 + γ) ^ 2 * X.nrm) := mul_le_mul_of_nonneg_left hi hp2
        _ = _ := by ring

/-- **Linear drift.** Starting from a unit element: `1 − 2nγ ≤ ‖X_n‖ ≤ exp(2nγ)`; for `n = 10⁴` float64
operations with `γ = 8·2⁻⁵²` this is `|‖X_n‖ − 1| < 10⁻¹⁰`. -/
theorem rounded_history_drift (eps γ : ℝ) (h0 : 0 ≤ eps) (h1 : eps ≤ 1) (hγ1 : γ ≤ 1) (heg : eps ^ 6 ≤ γ)
    (h : List (HOp × Quat ℝ)) (X : Quat ℝ) (hX : SO3.Valid X) (hc : Computed eps γ X h) :
    1 - 2 * h.length * γ ≤ (lastState X h).nrm ∧ (lastState X h).nrm ≤ Real.exp (2 * h.length * γ) := by
  have hγ : 0 ≤ γ := le_trans (by positivity) heg
  have hn : X.nrm = 1 := by unfold Quat.nrm; rw [(hX : X.normSq = 1)]; simp
  have := rounded_history_norm eps γ h0 h1 hγ1 heg h X hc
  rw [hn, mul_one, mul_one] at this
  constructor
  · have b := one_add_mul_le_pow (show (-2 : ℝ) ≤ -γ by linarith) (2 * h.length)
    rw [show (1 : ℝ) + -γ = 1 - γ by ring] at b
    have hb := le_trans b this.1
    push_cast at hb
    linarith
  · refine le_trans this.2 ?_
    have e1 : 1 + γ ≤ Real.exp γ := by linarith [Real.add_one_le_exp γ]
    calc (1 + γ) ^ (2 * h.length) ≤ Real.exp γ ^ (2 * h.length) := pow_le_pow_left₀ (by linarith) e1 _
      _ = Real.exp (((2 * h.length : ℕ) : ℝ) * γ) := by rw [Real.exp_nat_mul]
      _ = _ := by push_cast; ring_nf

/-- non-vacuity: a two-step computed history (product by a slightly non-unit element stored with a
perturbation, then an inverse stored exactly) satisfies `Computed` with `γ = 1/100` -/
example : Computed (1/1000) (1/100) (⟨0, 0, 0, 1⟩ : Quat ℝ)
    [(.mulL ⟨0, 0, 0, 1⟩, ⟨1/200, 0, 0, 1⟩), (.inv, ⟨-(1/200), 0, 0, 1⟩)] := by
  refine ⟨?_, ?_, ?_, ?_, trivial⟩
  · simp [HOp.okR, Quat.nrm, Quat.normSq]
  · simp only [HOp.apply, Quat.dist2]; lie_unfold; norm_num
  · trivial
  · simp only [HOp.apply, Quat.dist2]; lie_unfold; norm_num

/-- **Scale stays positive in rounded arithmetic.** The scale block of RxSO3 / Sim3 is updated by
`s ← f·s` with `f > 0` (the other operand's scale, its reciprocal for an inverse, `exp σ` for a retraction).
If every stored value is within relative distance `γ < 1` of the exact update of the previously stored value,
the stored scale is positive after any number of operations, and within `(1±γ)ⁿ·∏f` of its start. -/
def ScaleComputed (γ : ℝ) : ℝ → List (ℝ × ℝ) → Prop
  | _, [] => True
  | s, (f, s') :: rest => 0 < f ∧ |s' - f * s| ≤ γ * (f * s) ∧ ScaleComputed γ s' rest

theorem rounded_scale_pos (γ : ℝ) (hγ0 : 0 ≤ γ) (hγ1 : γ < 1) (h : List (ℝ × ℝ)) :
    ∀ (s : ℝ), 0 < s → ScaleComputed γ s h →
      0 < h.foldl (fun _ p => p.2) s ∧
      (1 - γ) ^ h.length * ((h.map Prod.fst).prod * s) ≤ h.foldl (fun _ p => p.2) s ∧
      h.foldl (fun _ p => p.2) s ≤ (1 + γ) ^ h.length * ((h.map Prod.fst).prod * s) := by
  induction h with
  | nil => intro s hs _; simp [hs]
  | cons p rest ih =>
    intro s hs hc
    obtain ⟨f, s'⟩ := p
    obtain ⟨hf, hd, hrest⟩ := hc
    have hfs : 0 < f * s := mul_pos hf hs
    have hb := abs_le.mp hd
    have hs' : 0 < s' := by nlinarith
    obtain ⟨i1, i2, i3⟩ := ih s' hs' hrest
    have hp : 0 ≤ (rest.map Prod.fst).prod := by
      -- every factor is positive
      have : ∀ (l : List (ℝ × ℝ)) (t : ℝ), ScaleComputed γ t l → 0 ≤ (l.map Prod.fst).prod := by
        intro l
        induction l with
        | nil => intro _ _; simp
        | cons q l ihl =>
          intro t ht
          obtain ⟨g, t'⟩ := q
          obtain ⟨hg, _, hl⟩ := ht
          simp only [List.map_cons, List.prod_cons]
          exact mul_nonneg hg.le (ihl t' hl)
      exact this rest s' hrest
    have hq1 : 0 ≤ (1 - γ) ^ rest.length := pow_nonneg (by linarith) _
    have hq2 : 0 ≤ (1 + γ) ^ rest.length := pow_nonneg (by linarith) _
    simp only [List.foldl_cons, List.length_cons, List.map_cons, List.prod_cons, pow_succ]
    refine ⟨i1, le_trans ?_ i2, le_trans i3 ?_⟩
    · have : (1 - γ) * (f * s) ≤ s' := by linarith [hb.1]
      calc (1 - γ) ^ rest.length * (1 - γ) * (f * (rest.map Prod.fst).prod * s)
          = ((1 - γ) ^ rest.length * (rest.map Prod.fst).prod) * ((1 - γ) * (f * s)) := by ring
        _ ≤ ((1 - γ) ^ rest.length * (rest.map Prod.fst).prod) * s' :=
            mul_le_mul_of_nonneg_left this (mul_nonneg hq1 hp)
        _ = _ := by ring
    · have : s' ≤ (1 + γ) * (f * s) := by linarith [hb.2]
      calc (1 + γ) ^ rest.length * ((rest.map Prod.fst).prod * s')
          = ((1 + γ) ^ rest.length * (rest.map Prod.fst).prod) * s' := by ring
        _ ≤ ((1 + γ) ^ rest.length * (rest.map Prod.fst).prod) * ((1 + γ) * (f * s)) :=
            mul_le_mul_of_nonneg_left this (mul_nonneg hq2 hp)
        _ = _ := by ring

example : ScaleComputed (1/10) 2 [(3, 6.1), (1/2, 3)] := by
  refine ⟨by norm_num, ?_, by norm_num, ?_, trivial⟩ <;> rw [abs_le] <;> constructor <;> norm_num

/-- on the closed-form branch (every retraction angle above `eps`) validity is preserved *exactly* -/
theorem SO3_valid_retr (eps : ℝ) (h0 : 0 ≤ eps) (X : Quat ℝ) (hX : SO3.Valid X) (a : Vec3 ℝ) (ha : eps < a.norm) :
    SO3.Valid (SO3Retr eps X a) := by
  unfold SO3.Valid SO3Retr; rw [Quat.normSq_mul, so3Exp_normSq_closed eps a h0 ha, hX]; ring

/-! ### non-vacuity -/
/-- a non-trivial computed history: non-identity start, a closed-form retraction by the angle π stored with a
perturbation, then a product with a non-identity operand stored with a perturbation -/
example : Computed (1/1000) (1/100) (⟨0.6, 0, 0, 0.8⟩ : Quat ℝ)
    [(.retr ⟨Real.pi, 0, 0⟩, ⟨0.801, 0, 0, -0.6⟩), (.mulR ⟨0, 1, 0, 0⟩, ⟨0, -0.6, 0.801, 0⟩)] := by
  refine ⟨trivial, ?_, ?_, ?_, trivial⟩
  · simp only [HOp.apply, SO3Retr, so3Exp_pi_x, Quat.dist2]; lie_unfold; norm_num
  · simp [HOp.okR, Quat.nrm, Quat.normSq]
  · simp only [HOp.apply, Quat.dist2]; lie_unfold; norm_num

example : SO3.Valid (⟨0.6, 0, 0, 0.8⟩ : Quat ℝ) := by unfold SO3.Valid; lie_unfold; norm_num
example : Sim3.Valid (⟨⟨1, 2, 3⟩, ⟨0, 0.6, 0, 0.8⟩, 2⟩ : Sim3 ℝ) := by
  refine ⟨?_, by norm_num⟩; lie_unfold; norm_num

end PP
