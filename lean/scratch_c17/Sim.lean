import Proofs.Lemmas.Align
namespace PP
open Vec3 Quat Mat3 Align

/-- `mat2Sim3(check=True)` on a `3×4` block `[c·R | t]` with `R` a proper rotation and `c > atol ≥ 0`: accepted, and
the result has translation `t`, scale `c`, a unit quaternion whose matrix is `R` -/
theorem mat2Sim3_of_scaled_rotation (detK : Mat3 ℝ → ℝ) (hdet : ∀ M, detK M = M.det) (rtol atol : ℝ)
    (hr : 0 ≤ rtol) (ha0 : 0 ≤ atol) (ha1 : atol < 1) (R : Mat3 ℝ) (hR : Mat3.IsRot R) (c : ℝ) (hc : atol < c)
    (t last : Vec3 ℝ) (l3 : ℝ) :
    ∃ X : Sim3 ℝ, mat2Sim3 detK true rtol atol ⟨.m34, Mat3.smul c R, t, last, l3⟩ = .ok X ∧
      X.t = t ∧ X.s = c ∧ X.q.normSq = 1 ∧ SO3matrix X.q = R := by
  obtain ⟨p, hp1, hp2⟩ := exists_quat_of_rotation R hR
  have hc0 : 0 < c := lt_of_le_of_lt ha0 hc
  have hb := scaledRotBatch_valid detK hdet true rtol atol hr ha0 ha1 [(p, c)]
    (by intro x hx; rw [List.mem_singleton.mp hx]; exact ⟨hp1, hc0⟩)
    (fun _ => ⟨(p, c), by simp, hc⟩)
  simp only [List.map_cons, List.map_nil, hp2] at hb
  refine ⟨⟨t, canonQ atol p, c⟩, ?_, rfl, rfl, ?_, ?_⟩
  · simp only [mat2Sim3, mat2Sim3Batch, List.map_cons, List.map_nil, hb, List.zipWith_cons_cons,
      List.zipWith_nil_right, MatIn.tOf]
  · rw [canonQ_normSq, hp1]
  · rw [SO3matrix_canonQ, hp2]

theorem Mat3.frob_smul (R M : Mat3 ℝ) (c : ℝ) : Mat3.frob R (Mat3.smul c M) = c * Mat3.frob R M := by
  simp only [Mat3.frob]; lie_unfold; ring

theorem ssign_real (x : ℝ) : ssign x = if 0 < x then 1 else if x < 0 then -1 else 0 := by
  simp only [ssign, lt_real, k_real, Nat.cast_zero, Nat.cast_one, decide_eq_true_eq]

/-- the rotation of `svdstf`, `U·diag(1,1,sign det(U V))·V`, is the same `rotOf` as in `svdtf` -/
theorem svdstf_rot_eq (d : SVD3 ℝ) (hU : Mat3.IsOrth d.U) (hV : Mat3.IsOrth d.Vh) :
    (d.U.mul (diag3 ⟨1, 1, ssign ((d.U.mul d.Vh).det)⟩)).mul d.Vh = rotOf d ∧
    ssign ((d.U.mul d.Vh).det) = (d.U.mul d.Vh).det := by
  unfold rotOf
  rcases (hU.mul hV).det_cases with h1 | h1
  · rw [h1, ssign_real]
    norm_num
    congr 1
    simp only [diag3]; mat3_ext <;> lie_unfold <;> ring
  · rw [h1, ssign_real]
    norm_num
    rw [flipLastCol_eq]

/-- the rigid/similarity map of a `Sim3` element as an affine map -/
theorem Sim3Act_eq_affine (X : Sim3 ℝ) : Sim3Act X = affine (Mat3.smul X.s (SO3matrix X.q)) X.t := by
  funext p
  simp only [Sim3Act, affine, Mat3.smul_mulVec, SO3matrix_mulVec]
  apply Vec3.ext' <;> simp only [Vec3.add, Vec3.smul] <;> ring

end PP
