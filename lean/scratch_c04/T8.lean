import Proofs.Lemmas.AutogradChain
set_option linter.unusedSimpArgs false
namespace PP.AD
open PP

theorem adim_pos (g : Grp) : 0 < g.adim := by cases g <;> simp [Grp.adim]
theorem gdim_eq (g : Grp) : g.gdim = g.adim + 1 := by cases g <;> rfl

theorem vecMul_headN_adjoint {n m : Nat} (J : DMat ℝ) (hs : Shape n m J) (hn : 0 < n) (go τ : DVec ℝ) (hgo : n ≤ go.length) :
    DVec.dot (DMat.vecMul (headN n go) J) τ = DVec.dot go (DMat.mulVec J τ) := by
  rw [vecMul_adjoint J hs hn _ τ (by simp), ddot_headN _ _ _ (by rw [length_mulVec J hs]) hgo]

theorem adj_Exp (g : Grp) (eps : ℝ) (x go τ : DVec ℝ) (hgo : go.length = g.gdim) :
    DVec.dot (expB g eps x go) τ = DVec.dot go ((JlMat g eps x).mulVec τ) :=
  vecMul_headN_adjoint _ (Shape_JlMat g eps x) (adim_pos g) go τ (by rw [hgo, gdim_eq]; omega)

theorem adj_Log (g : Grp) (eps : ℝ) (out go τ : DVec ℝ) (hgo : go.length = g.adim) (hτ : τ.length = g.adim) :
    DVec.dot (logB g eps out go) τ = DVec.dot go ((JlInvMat g eps out).mulVec τ) := by
  have hs := Shape_JlInvMat g eps out
  unfold logB
  rw [ddot_pad0 _ _ (by rw [length_vecMul _ hs (adim_pos g), hτ]), vecMul_adjoint _ hs (adim_pos g) go τ hgo]

theorem adj_Inv (g : Grp) (Y go τ : DVec ℝ) (hgo : go.length = g.gdim) (hτ : τ.length = g.adim) :
    DVec.dot (invB g Y go) τ = DVec.dot go (DVec.neg ((AdjMat g Y).mulVec τ)) := by
  have hs := Shape_AdjMat g Y
  unfold invB
  rw [ddot_pad0 _ _ (by rw [length_dneg, length_vecMul _ hs (adim_pos g), hτ]), ddot_neg_left, ddot_neg_right,
      vecMul_headN_adjoint _ hs (adim_pos g) go τ (by rw [hgo, gdim_eq]; omega)]

theorem adj_Mul (g : Grp) (X go τx τy : DVec ℝ) (hgo : go.length = g.gdim) (hx : τx.length = g.adim) (hy : τy.length = g.adim) :
    DVec.dot (mulB g X go).1 τx + DVec.dot (mulB g X go).2 τy
      = DVec.dot go (DVec.add τx ((AdjMat g X).mulVec τy)) := by
  have hs := Shape_AdjMat g X
  have hle : g.adim ≤ go.length := by rw [hgo, gdim_eq]; omega
  unfold mulB
  simp only []
  rw [ddot_add_right _ _ _ (by rw [hx, length_mulVec _ hs]),
    ddot_pad0 _ _ (by simp [hx]), ddot_pad0 _ _ (by rw [length_vecMul _ hs (adim_pos g), hy]),
    ddot_headN _ _ _ (by simp [hx]) hle, vecMul_headN_adjoint _ hs (adim_pos g) go τy hle]

theorem adj_Act (g : Grp) (X out go τx τy : DVec ℝ) (hgo : go.length = 3) (hx : τx.length = g.adim) :
    DVec.dot (actB g X out go).1 τx + DVec.dot (actB g X out go).2 τy
      = DVec.dot go (DVec.add ((ActJac g (v3 out)).mulVec τx) (DMat.mulVec (Mat33 g X).toRows τy)) := by
  have hs := Shape_ActJac g (v3 out)
  have hm := Shape_toRows (Mat33 g X)
  unfold actB
  simp only []
  rw [ddot_add_right _ _ _ (by rw [length_mulVec _ hs, length_mulVec _ hm]),
    ddot_pad0 _ _ (by rw [length_vecMul _ hs (by norm_num), hx]), vecMul_adjoint _ hs (by norm_num) go τx hgo,
    vecMul_adjoint _ hm (by norm_num) go τy hgo]

theorem adj_Act4 (g : Grp) (X out go τx τy : DVec ℝ) (hgo : go.length = 4) (hx : τx.length = g.adim) :
    DVec.dot (act4B g X out go).1 τx + DVec.dot (act4B g X out go).2 τy
      = DVec.dot go (DVec.add ((Act4Jac g (v3 out) (nth out 3)).mulVec τx) ((Mat44 g X).mulVec τy)) := by
  have hs := Shape_Act4Jac g (v3 out) (nth out 3)
  have hm := Shape_Mat44 g X
  unfold act4B
  simp only []
  rw [ddot_add_right _ _ _ (by rw [length_mulVec _ hs, length_mulVec _ hm]),
    ddot_pad0 _ _ (by rw [length_vecMul _ hs (by norm_num), hx]), vecMul_adjoint _ hs (by norm_num) go τx hgo,
    vecMul_adjoint _ hm (by norm_num) go τy hgo]

theorem adj_Adj (g : Grp) (X out go τx τy : DVec ℝ) (hgo : go.length = g.adim) (hx : τx.length = g.adim) :
    DVec.dot (adjB g X out go).1 τx + DVec.dot (adjB g X out go).2 τy
      = DVec.dot go (DVec.add (DVec.neg ((adMat g out).mulVec τx)) ((AdjMat g X).mulVec τy)) := by
  have hs := Shape_adMat g out
  have hm := Shape_AdjMat g X
  unfold adjB
  simp only []
  rw [ddot_add_right _ _ _ (by rw [length_dneg, length_mulVec _ hs, length_mulVec _ hm]),
    ddot_pad0 _ _ (by rw [length_vecMul _ hs (adim_pos g), hx]), vecMul_adjoint _ hs (adim_pos g) _ τx (by simpa using hgo),
      vecMul_adjoint _ hm (adim_pos g) go τy hgo, ddot_neg_left, ddot_neg_right]

/-- `SE3` / `RxSO3` / `Sim3` shape of `*_AdjTXa.backward` -/
theorem adj_AdjT_gen (g : Grp) (hg : g ≠ .SO3) (X a go τx τy : DVec ℝ) (hgo : go.length = g.adim) (hx : τx.length = g.adim) :
    DVec.dot (adjTB g X a go).1 τx + DVec.dot (adjTB g X a go).2 τy
      = DVec.dot go (DVec.add ((AdjMat g (invF g X)).mulVec ((adMat g a).mulVec τx)) ((AdjMat g (invF g X)).mulVec τy)) := by
  have hs := Shape_adMat g a
  have hm := Shape_AdjMat g (invF g X)
  have key : ∀ ag : DVec ℝ, ag = DMat.vecMul go (AdjMat g (invF g X)) →
      DVec.dot (pad0 (DMat.vecMul ag (adMat g a))) τx + DVec.dot ag τy
        = DVec.dot go (DVec.add ((AdjMat g (invF g X)).mulVec ((adMat g a).mulVec τx)) ((AdjMat g (invF g X)).mulVec τy)) := by
    intro ag hag
    have hl : ag.length = g.adim := by rw [hag, length_vecMul _ hm (adim_pos g)]
    rw [ddot_add_right _ _ _ (by rw [length_mulVec _ hm, length_mulVec _ hm]),
      ddot_pad0 _ _ (by rw [length_vecMul _ hs (adim_pos g), hx]), vecMul_adjoint _ hs (adim_pos g) ag τx hl, hag,
      vecMul_adjoint _ hm (adim_pos g) go _ hgo, vecMul_adjoint _ hm (adim_pos g) go _ hgo]
  cases g
  · exact absurd rfl hg
  all_goals exact key _ rfl

theorem adj_AdjT_SO3 (X a go τx τy : DVec ℝ) (hgo : go.length = 3) (hx : τx.length = 3) (hy : τy.length = 3)
    (ha : a.length = 3) :
    DVec.dot (adjTB .SO3 X a go).1 τx + DVec.dot (adjTB .SO3 X a go).2 τy
      = DVec.dot go (DVec.add ((AdjMat .SO3 (invF .SO3 X)).mulVec ((adMat .SO3 a).mulVec τx))
          ((AdjMat .SO3 (invF .SO3 X)).mulVec τy)) := by
  have hs := Shape_adMat .SO3 (adjF .SO3 X go)
  have e1 : DVec.dot (adjTB .SO3 X a go).1 τx
      = DVec.dot (DVec.neg a) ((adMat .SO3 (adjF .SO3 X go)).mulVec τx) := by
    simp only [adjTB]
    rw [ddot_pad0 _ _ (by rw [length_vecMul _ hs (adim_pos _), hx]; simp [Grp.adim]),
      vecMul_adjoint _ hs (adim_pos _) _ τx (by simp [ha, Grp.adim])]
  have e2 : (adjTB .SO3 X a go).2 = adjF .SO3 X go := by simp [adjTB]
  rw [e1, e2]
  obtain ⟨g0, g1, g2, rfl⟩ := len3 go hgo
  obtain ⟨x0, x1, x2, rfl⟩ := len3 τx hx
  obtain ⟨y0, y1, y2, rfl⟩ := len3 τy hy
  obtain ⟨a0, a1, a2, rfl⟩ := len3 a ha
  fwd_unfold
  lie_unfold
  try simp only [Quat.conj, Quat.toList, qt, nth_cons_zero, nth_cons_succ, List.foldl, List.zipWith]
  ring

theorem adj_Jinvp (g : Grp) (eps : ℝ) (D : DMat ℝ) (hD : Shape g.adim g.adim D) (phi go τx τy : DVec ℝ)
    (hgo : go.length = g.adim) (hx : τx.length = g.adim) :
    DVec.dot (jinvpB g eps D phi go).1 τx + DVec.dot (jinvpB g eps D phi go).2 τy
      = DVec.dot go (DVec.add (D.mulVec ((JlInvMat g eps phi).mulVec τx)) ((JlInvMat g eps phi).mulVec τy)) := by
  have hs := Shape_JlInvMat g eps phi
  unfold jinvpB
  simp only []
  rw [ddot_add_right _ _ _ (by rw [length_mulVec _ hD, length_mulVec _ hs]),
    adj_Log g eps phi _ τx (length_vecMul _ hD (adim_pos g) _) hx,
    vecMul_adjoint _ hD (adim_pos g) go _ hgo, vecMul_adjoint _ hs (adim_pos g) go τy hgo]
end PP.AD
