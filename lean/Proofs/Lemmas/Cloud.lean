import Pose.Model.Cloud
import Proofs.Real
import Proofs.Lemmas.Quat
import Proofs.Lemmas.Batch
import Mathlib.Data.List.Sort
import Mathlib.Data.List.Perm.Basic
import Mathlib.Data.List.Perm.Subperm
import Mathlib.Data.List.GetD
import Mathlib.Data.Finset.Sort
import Mathlib.Data.List.Lex
import Mathlib.Algebra.Order.Floor.Ring
import Mathlib.Data.List.FinRange
import Mathlib.Algebra.BigOperators.Group.List.Basic
import Mathlib.Algebra.Order.BigOperators.Group.List
import Mathlib.Tactic.Linarith
import Mathlib.Tactic.FieldSimp
import Mathlib.Tactic.Ring
/-!
# Helper lemmas for C18 (point-cloud filters, camera helpers) at `α = ℝ`
-/
open PP PP.Cloud

namespace PP.Cloud

/-! ## the real instance: sums, abs, max, min -/

@[simp] theorem k0_real : (k 0 : ℝ) = 0 := by simp
@[simp] theorem k1_real : (k 1 : ℝ) = 1 := by simp

theorem sumL_real (xs : List ℝ) : sumL xs = xs.sum := by
  unfold sumL
  rw [k0_real]
  induction xs with
  | nil => simp
  | cons x xs ih => simp only [List.foldr_cons, List.sum_cons, ih]

theorem smax_real (a b : ℝ) : smax a b = max a b := by
  unfold smax; simp only [lt_real]
  by_cases h : a < b
  · simp [h, max_eq_right (le_of_lt h)]
  · simp [h, max_eq_left (le_of_not_gt h)]

theorem smin_real (a b : ℝ) : smin a b = min a b := by
  unfold smin; simp only [lt_real]
  by_cases h : b < a
  · simp [h, min_eq_right (le_of_lt h)]
  · simp [h, min_eq_left (le_of_not_gt h)]

theorem spm_real (w : ℝ) : spm w = if w < 0 then -1 else 1 := by
  unfold spm; simp

theorem leB_false (a b : ℝ) : leB false a b = decide (a ≤ b) := by simp [leB]
theorem leB_true (a b : ℝ) : leB true a b = decide (b ≤ a) := by simp [leB]

/-! ## norms are non-negative and vanish on the zero difference -/

theorem vsub_self (a : List ℝ) : vsub a a = List.replicate a.length 0 := by
  unfold vsub
  induction a with
  | nil => rfl
  | cons x xs ih => simp [List.replicate_succ]

theorem normOf_replicate_zero (o : Norm) (n : Nat) : normOf o (List.replicate n (0 : ℝ)) = 0 := by
  cases o
  · simp only [normOf, sumL_real]
    induction n with
    | zero => simp
    | succ n ih => simp only [List.replicate_succ, List.map_cons, List.sum_cons, sabs_real]; simpa using ih
  · simp only [normOf, sumL_real, sqrt_real]
    have : ((List.replicate n (0 : ℝ)).map fun x => x * x).sum = 0 := by
      induction n with
      | zero => simp
      | succ n ih => simp only [List.replicate_succ, List.map_cons, List.sum_cons, ih]; simp
    rw [this]; simp
  · simp only [normOf, k0_real]
    induction n with
    | zero => simp
    | succ n ih => simp only [List.replicate_succ, List.foldr_cons]; rw [ih]; simp [smax_real, sabs_real]

/-- a point is at distance `0` from itself, in every norm -/
theorem dist_self (o : Norm) (a : List ℝ) : dist o a a = 0 := by
  unfold dist; rw [vsub_self]; exact normOf_replicate_zero o _

theorem pdist_self (o : Norm) (pdim : Nat) (a : Pt ℝ) : pdist o pdim a a = 0 := dist_self o _

theorem normOf_nonneg (o : Norm) (v : List ℝ) : 0 ≤ normOf o v := by
  cases o
  · simp only [normOf, sumL_real]
    apply List.sum_nonneg
    intro x hx
    simp only [List.mem_map] at hx
    obtain ⟨y, _, rfl⟩ := hx
    rw [sabs_real]; exact abs_nonneg y
  · simp only [normOf, sqrt_real]; exact Real.sqrt_nonneg _
  · simp only [normOf, k0_real]
    induction v with
    | nil => simp
    | cons x xs ih => simp only [List.foldr_cons]; rw [smax_real]; exact le_max_of_le_right ih

theorem pdist_nonneg (o : Norm) (pdim : Nat) (a b : Pt ℝ) : 0 ≤ pdist o pdim a b := normOf_nonneg o _

/-! ## boolean-mask selection is `filter` -/

theorem selectMask_map {β : Type} (xs : List β) (f : β → Bool) :
    selectMask xs (xs.map f) = xs.filter f := by
  unfold selectMask
  induction xs with
  | nil => rfl
  | cons x xs ih =>
    simp only [List.map_cons, List.zip_cons_cons, List.filterMap_cons, List.filter_cons]
    by_cases h : f x <;> simp [h, ih]

/-! ## the `topk` contract as a proposition -/

/-- `idx` is a valid answer of `topk(k, sorted=True)` on `vals` for the order `r` (`≤`: smallest first) -/
structure TopkSpec (r : ℝ → ℝ → Prop) (vals : List ℝ) (kk : Nat) (idx : List Nat) : Prop where
  len : idx.length = kk
  nodup : idx.Nodup
  inb : ∀ i ∈ idx, i < vals.length
  sorted : (idx.map fun i => vals.getD i 0).Pairwise r
  least : ∀ i ∈ idx, ∀ j, j < vals.length → j ∉ idx → r (vals.getD i 0) (vals.getD j 0)

/-- order relation selected by the `largest` flag -/
def ordRel (largest : Bool) : ℝ → ℝ → Prop := fun a b => if largest then b ≤ a else a ≤ b

theorem leB_iff (largest : Bool) (a b : ℝ) : leB largest a b = true ↔ ordRel largest a b := by
  cases largest <;> simp [leB, ordRel]

theorem ordRel_trans (lg : Bool) {a b c : ℝ} : ordRel lg a b → ordRel lg b c → ordRel lg a c := by
  cases lg <;> simp [ordRel] <;> intro h1 h2 <;> linarith

theorem ordRel_total (lg : Bool) (a b : ℝ) : ordRel lg a b ∨ ordRel lg b a := by
  cases lg <;> simp [ordRel] <;> exact le_total _ _

theorem ordRel_antisymm (lg : Bool) {a b : ℝ} : ordRel lg a b → ordRel lg b a → a = b := by
  cases lg <;> simp [ordRel] <;> intro h1 h2 <;> linarith

/-- the driver's boolean contract check is exactly `TopkSpec` -/
theorem topkOk_iff (largest : Bool) (vals : List ℝ) (kk : Nat) (idx : List Nat) :
    topkOk largest vals kk idx = true ↔ TopkSpec (ordRel largest) vals kk idx := by
  unfold topkOk
  simp only [Bool.and_eq_true, beq_iff_eq, List.all_eq_true, decide_eq_true_eq, k0_real,
    List.mem_range, Bool.or_eq_true, List.contains_iff_mem, leB_iff]
  constructor
  · rintro ⟨⟨⟨⟨h1, h2⟩, h3⟩, h4⟩, h5⟩
    refine ⟨h1, h3, h2, h4, ?_⟩
    intro i hi j hj hnot
    rcases h5 i hi j hj with h | h
    · exact absurd h hnot
    · exact h
  · rintro ⟨h1, h2, h3, h4, h5⟩
    refine ⟨⟨⟨⟨h1, h3⟩, h2⟩, h4⟩, ?_⟩
    intro i hi j hj
    by_cases hm : j ∈ idx
    · exact Or.inl hm
    · exact Or.inr (h5 i hi j hj hm)


/-! ## sorted lists of reals -/

/-- all values sorted in the order chosen by `largest` (ascending for `false`) -/
noncomputable def sortVals (lg : Bool) (vals : List ℝ) : List ℝ := vals.mergeSort (fun a b => leB lg a b)

theorem leB_trans (lg : Bool) (a b c : ℝ) : leB lg a b = true → leB lg b c = true → leB lg a c = true := by
  simp only [leB_iff]; exact ordRel_trans lg

theorem leB_total (lg : Bool) (a b : ℝ) : (leB lg a b || leB lg b a) = true := by
  simp only [Bool.or_eq_true, leB_iff]; exact ordRel_total lg a b

theorem sortVals_pairwise (lg : Bool) (vals : List ℝ) : (sortVals lg vals).Pairwise (ordRel lg) := by
  have := List.pairwise_mergeSort (le := fun a b => leB lg a b) (leB_trans lg) (leB_total lg) vals
  exact this.imp (fun {a b} h => (leB_iff lg a b).1 h)

theorem sortVals_perm (lg : Bool) (vals : List ℝ) : (sortVals lg vals).Perm vals :=
  List.mergeSort_perm _ _

/-- two sorted lists with the same elements are equal -/
theorem sorted_perm_unique (lg : Bool) {l₁ l₂ : List ℝ} (h₁ : l₁.Pairwise (ordRel lg)) (h₂ : l₂.Pairwise (ordRel lg))
    (hp : l₁.Perm l₂) : l₁ = l₂ :=
  List.Perm.eq_of_pairwise (le := ordRel lg) (fun _ _ _ _ hab hba => ordRel_antisymm lg hab hba) h₁ h₂ hp

theorem sortVals_congr (lg : Bool) {l₁ l₂ : List ℝ} (hp : l₁.Perm l₂) : sortVals lg l₁ = sortVals lg l₂ :=
  sorted_perm_unique lg (sortVals_pairwise lg l₁) (sortVals_pairwise lg l₂)
    ((sortVals_perm lg l₁).trans (hp.trans (sortVals_perm lg l₂).symm))

/-- sorting by a key and then reading the key = sorting the keys -/
theorem map_sort_key {β : Type} (lg : Bool) (f : β → ℝ) (l : List β) :
    (l.mergeSort fun a b => leB lg (f a) (f b)).map f = sortVals lg (l.map f) :=
  List.map_mergeSort (r := fun a b => leB lg (f a) (f b)) (s := fun a b => leB lg a b) (f := f)
    (fun _ _ _ _ => rfl)

theorem map_getD_range (vals : List ℝ) : (List.range vals.length).map (fun i => vals.getD i 0) = vals := by
  apply List.ext_getElem
  · simp
  · intro i h1 h2
    simp only [List.getElem_map, List.getElem_range]
    exact List.getD_eq_getElem _ _ h2

/-- elementwise: if `f` separates the members of `L` from those of `L'`, equal images force equal lists -/
theorem map_injOn_eq {β γ : Type} (f : β → γ) : ∀ (L L' : List β),
    (∀ a ∈ L, ∀ b ∈ L', f a = f b → a = b) → L.map f = L'.map f → L = L'
  | [], [], _, _ => rfl
  | [], _ :: _, _, h => by simp at h
  | _ :: _, [], _, h => by simp at h
  | a :: L, b :: L', hinj, h => by
    simp only [List.map_cons, List.cons.injEq] at h
    have hab : a = b := hinj a List.mem_cons_self b List.mem_cons_self h.1
    have := map_injOn_eq f L L'
      (fun x hx y hy => hinj x (List.mem_cons_of_mem _ hx) y (List.mem_cons_of_mem _ hy)) h.2
    rw [hab, this]

/-! ## consequences of the `topk` contract -/

/-- **the values selected by `topk` are the first `k` of the sorted list of all values** -/
theorem TopkSpec.values {lg : Bool} {vals : List ℝ} {kk : Nat} {idx : List Nat}
    (h : TopkSpec (ordRel lg) vals kk idx) :
    (idx.map fun i => vals.getD i 0) = (sortVals lg vals).take kk := by
  set v := fun i => vals.getD i 0 with hv
  set rest := (List.range vals.length).filter (fun j => decide (j ∉ idx)) with hrest
  have hnd : (idx ++ rest).Nodup := by
    apply List.Nodup.append h.nodup (List.Nodup.filter _ List.nodup_range)
    intro a ha hb
    simp only [List.mem_filter, decide_eq_true_eq] at hb
    exact hb.2 ha
  have hperm : (idx ++ rest).Perm (List.range vals.length) := by
    rw [List.perm_ext_iff_of_nodup hnd List.nodup_range]
    intro a
    simp only [hrest, List.mem_append, List.mem_filter, List.mem_range, decide_eq_true_eq]
    constructor
    · rintro (ha | ha)
      · exact h.inb a ha
      · exact ha.1
    · intro ha
      by_cases hm : a ∈ idx
      · exact Or.inl hm
      · exact Or.inr ⟨ha, hm⟩
  have hvals : ((idx.map v) ++ sortVals lg (rest.map v)).Perm vals := by
    have h1 : ((idx ++ rest).map v).Perm ((List.range vals.length).map v) := hperm.map v
    rw [map_getD_range, List.map_append] at h1
    exact (List.Perm.append_left _ (sortVals_perm lg _)).trans h1
  have hsorted : ((idx.map v) ++ sortVals lg (rest.map v)).Pairwise (ordRel lg) := by
    rw [List.pairwise_append]
    refine ⟨h.sorted, sortVals_pairwise lg _, ?_⟩
    intro a ha b hb
    have hb' : b ∈ rest.map v := (sortVals_perm lg _).subset hb
    simp only [List.mem_map] at ha hb'
    obtain ⟨i, hi, rfl⟩ := ha
    obtain ⟨j, hj, rfl⟩ := hb'
    simp only [hrest, List.mem_filter, List.mem_range, decide_eq_true_eq] at hj
    exact h.least i hi j hj.1 hj.2
  have heq : sortVals lg vals = (idx.map v) ++ sortVals lg (rest.map v) :=
    sorted_perm_unique lg (sortVals_pairwise lg vals) hsorted ((sortVals_perm lg vals).trans hvals.symm)
  rw [heq, List.take_left']
  simp [h.len]

/-- **no ties ⇒ the index list is uniquely determined by the contract** -/
theorem TopkSpec.unique {lg : Bool} {vals : List ℝ} {kk : Nat} {idx₁ idx₂ : List Nat}
    (h₁ : TopkSpec (ordRel lg) vals kk idx₁) (h₂ : TopkSpec (ordRel lg) vals kk idx₂)
    (hinj : ∀ i j, i < vals.length → j < vals.length → vals.getD i 0 = vals.getD j 0 → i = j) :
    idx₁ = idx₂ := by
  apply map_injOn_eq (fun i => vals.getD i 0)
  · intro a ha b hb; exact hinj a b (h₁.inb a ha) (h₂.inb b hb)
  · rw [h₁.values, h₂.values]

/-! ## the driver's stand-in satisfies the contract (so the hypotheses of the theorems are satisfiable) -/

theorem topkStd_spec (lg : Bool) (vals : List ℝ) (kk : Nat) (hk : kk ≤ vals.length) :
    TopkSpec (ordRel lg) vals kk (topkStd lg vals kk) := by
  unfold topkStd
  set le2 : ℝ × Nat → ℝ × Nat → Bool := fun a b => leB lg a.1 b.1 with hle2
  set P := vals.zipIdx.mergeSort le2 with hP
  have hPperm : P.Perm vals.zipIdx := List.mergeSort_perm _ _
  have hPsorted : P.Pairwise (fun a b => le2 a b = true) :=
    List.pairwise_mergeSort (le := le2) (fun a b c => leB_trans lg a.1 b.1 c.1) (fun a b => leB_total lg a.1 b.1) _
  have hPlen : P.length = vals.length := by rw [hPperm.length_eq]; simp
  have hsnd : (P.map Prod.snd).Perm (List.range vals.length) := by
    have := hPperm.map Prod.snd
    rwa [List.zipIdx_map_snd, ← List.range_eq_range'] at this
  have hkey : ∀ p ∈ P, vals.getD p.2 0 = p.1 := by
    intro p hp
    have := List.mem_zipIdx_iff_getElem?.1 (hPperm.subset hp)
    rw [List.getD_eq_getElem?_getD, this]; rfl
  refine ⟨?_, ?_, ?_, ?_, ?_⟩
  · simp [hPlen, hk]
  · have : ((P.take kk).map Prod.snd).Sublist (P.map Prod.snd) := (List.take_sublist _ _).map _
    exact (hsnd.nodup_iff.2 List.nodup_range).sublist this
  · intro i hi
    have : i ∈ P.map Prod.snd := ((List.take_sublist kk P).map Prod.snd).subset hi
    simpa using hsnd.subset this
  · rw [List.map_map]
    have hsub : (P.take kk).Pairwise (fun a b => le2 a b = true) := hPsorted.sublist (List.take_sublist _ _)
    rw [List.pairwise_map]
    refine hsub.imp_of_mem ?_
    intro a b ha hb hab
    have ha' := hkey a (List.mem_of_mem_take ha)
    have hb' := hkey b (List.mem_of_mem_take hb)
    simp only [Function.comp]
    rw [ha', hb']
    exact (leB_iff lg _ _).1 hab
  · intro i hi j hj hnot
    simp only [List.mem_map] at hi
    obtain ⟨p, hp, rfl⟩ := hi
    have hjP : (vals.getD j 0, j) ∈ P := by
      apply hPperm.symm.subset
      rw [List.mem_zipIdx_iff_getElem?]
      simp [List.getD_eq_getElem?_getD, List.getElem?_eq_getElem hj]
    have hsplit : P = P.take kk ++ P.drop kk := (List.take_append_drop kk P).symm
    have hjdrop : (vals.getD j 0, j) ∈ P.drop kk := by
      rw [hsplit, List.mem_append] at hjP
      rcases hjP with h | h
      · exact absurd (List.mem_map.2 ⟨_, h, rfl⟩) hnot
      · exact h
    rw [hsplit, List.pairwise_append] at hPsorted
    have := hPsorted.2.2 p hp _ hjdrop
    rw [hkey p (List.mem_of_mem_take hp)]
    exact (leB_iff lg _ _).1 this


/-! ## `topk` on a key of the points = the points sorted by that key -/

/-- If `topk` is run on the keys `f p` of a list of points on which `f` has no ties, the selected *points*
are the first `m` of the list sorted by `f` — whatever tie-breaking / algorithm `topk` uses. -/
theorem topk_points {β : Type} (lg : Bool) (f : β → ℝ) (pts : List β) (d0 : β) (m : Nat) (idx : List Nat)
    (h : TopkSpec (ordRel lg) (pts.map f) m idx)
    (hinj : ∀ a ∈ pts, ∀ b ∈ pts, f a = f b → a = b) :
    (idx.map fun i => pts.getD i d0) = (pts.mergeSort fun a b => leB lg (f a) (f b)).take m := by
  have hlen : ∀ i ∈ idx, i < pts.length := fun i hi => by simpa using h.inb i hi
  apply map_injOn_eq f
  · intro a ha b hb
    simp only [List.mem_map] at ha
    obtain ⟨i, hi, rfl⟩ := ha
    have hb' : b ∈ pts := (List.mergeSort_perm _ _).subset (List.mem_of_mem_take hb)
    rw [List.getD_eq_getElem _ _ (hlen i hi)]
    exact hinj _ (List.getElem_mem _) b hb'
  · rw [List.map_take, map_sort_key, ← h.values, List.map_map]
    apply List.map_congr_left
    intro i hi
    simp only [Function.comp]
    rw [List.getD_eq_getElem _ _ (hlen i hi), List.getD_eq_getElem _ _ (by simpa using hlen i hi)]
    simp

/-- the sorted-by-key list does not depend on the order of the input when the key has no ties -/
theorem sort_key_perm {β : Type} (lg : Bool) (f : β → ℝ) {l l' : List β} (hp : l.Perm l')
    (hinj : ∀ a ∈ l, ∀ b ∈ l, f a = f b → a = b) :
    (l.mergeSort fun a b => leB lg (f a) (f b)) = (l'.mergeSort fun a b => leB lg (f a) (f b)) := by
  apply map_injOn_eq f
  · intro a ha b hb
    have ha' : a ∈ l := (List.mergeSort_perm _ _).subset ha
    have hb' : b ∈ l := hp.symm.subset ((List.mergeSort_perm _ _).subset hb)
    exact hinj a ha' b hb'
  · rw [map_sort_key, map_sort_key]
    exact sortVals_congr lg (hp.map f)

/-! ## column means -/

theorem colMean_perm {L L' : List (Pt ℝ)} (h : L.Perm L') (c : Nat) : colMean L c = colMean L' c := by
  unfold colMean
  rw [sumL_real, sumL_real, (h.map _).sum_eq, h.length_eq]

theorem meanCols_perm (D : Nat) {L L' : List (Pt ℝ)} (h : L.Perm L') : meanCols D L = meanCols D L' := by
  unfold meanCols
  apply List.map_congr_left
  intro c _
  exact colMean_perm h c

/-! ## `nbr_filter` -/

theorem within_self (o : Norm) (pdim : Nat) (r : ℝ) (p : Pt ℝ) (hr : 0 ≤ r) : within o pdim r p p = true := by
  simp [within, pdist_self, hr]

theorem nbrFilter_eq_filter (o : Norm) (pdim : Nat) (r : ℝ) (n : ℤ) (pts : List (Pt ℝ)) :
    nbrFilter o pdim r n pts = pts.filter (fun p => decide (n ≤ nbrCount o pdim r pts p)) :=
  selectMask_map _ _

theorem nbrCount_perm (o : Norm) (pdim : Nat) (r : ℝ) {pts pts' : List (Pt ℝ)} (h : pts.Perm pts') (p : Pt ℝ) :
    nbrCount o pdim r pts p = nbrCount o pdim r pts' p := by
  unfold nbrCount; rw [h.countP_eq]

/-- the count the code computes (`sum(dist <= r) - 1`) is the number of OTHER points within the radius -/
theorem nbrCount_others (o : Norm) (pdim : Nat) (r : ℝ) (hr : 0 ≤ r) (l₁ l₂ : List (Pt ℝ)) (p : Pt ℝ) :
    nbrCount o pdim r (l₁ ++ p :: l₂) p = ((l₁ ++ l₂).countP (within o pdim r p) : ℤ) := by
  unfold nbrCount
  simp only [List.countP_append, List.countP_cons, within_self o pdim r p hr, if_true]
  push_cast
  ring

/-! ## `index_add_` accumulators -/

theorem indexAdd_foldl (l : List (Nat × Pt ℝ)) (acc : Nat → Nat → ℝ) (j c : Nat) :
    (l.foldl (fun acc ip => fun j c => if j = ip.1 then acc j c + ip.2.getD c (k 0) else acc j c) acc) j c
      = acc j c + ((l.filter fun ip => decide (ip.1 = j)).map fun ip => ip.2.getD c 0).sum := by
  induction l generalizing acc with
  | nil => simp
  | cons x l ih =>
    rw [List.foldl_cons, ih]
    obtain ⟨a, b⟩ := x
    by_cases h : a = j
    · subst h
      simp only [List.filter_cons, decide_true, if_true, List.map_cons, List.sum_cons, k0_real]
      ring
    · have h' : ¬ j = a := fun e => h e.symm
      simp only [List.filter_cons, h, h', decide_false, if_false, Bool.false_eq_true]

theorem zip_map_self {β γ : Type} (g : β → γ) (l : List β) : (l.map g).zip l = l.map fun p => (g p, p) := by
  induction l with
  | nil => rfl
  | cons x l ih => simp [ih]

/-- `index_add_` on zeros: entry `(j, c)` is the channel-`c` sum over the points sent to row `j` -/
theorem indexAdd_spec (g : Pt ℝ → Nat) (pts : List (Pt ℝ)) (j c : Nat) :
    indexAdd (pts.map g) pts j c = sumL ((pts.filter fun p => decide (g p = j)).map fun p => p.getD c (k 0)) := by
  unfold indexAdd
  rw [indexAdd_foldl, zip_map_self, sumL_real, k0_real, List.filter_map, List.map_map]
  simp only [zero_add]
  rfl

theorem indexCount_foldl (l : List Nat) (acc : Nat → ℝ) (j : Nat) :
    (l.foldl (fun acc i => fun j => if j = i then acc j + k 1 else acc j) acc) j
      = acc j + (l.count j : ℝ) := by
  induction l generalizing acc with
  | nil => simp
  | cons x l ih =>
    rw [List.foldl_cons, ih]
    by_cases h : x = j
    · subst h; simp; ring
    · have h' : ¬ j = x := fun e => h e.symm
      simp [h, h']

theorem indexCount_spec (g : Pt ℝ → Nat) (pts : List (Pt ℝ)) (j : Nat) :
    indexCount (α := ℝ) (pts.map g) j = ((pts.filter fun p => decide (g p = j)).length : ℝ) := by
  unfold indexCount
  rw [indexCount_foldl, k0_real, zero_add, List.count_eq_countP, List.countP_map, List.countP_eq_length_filter]
  congr 2

/-! ## minimum of a list -/

theorem foldl_min_le_init (xs : List ℝ) (x : ℝ) : xs.foldl smin x ≤ x := by
  induction xs generalizing x with
  | nil => simp
  | cons y ys ih => simp only [List.foldl_cons]; exact (ih _).trans (by rw [smin_real]; exact min_le_left _ _)

theorem foldl_min_le_mem (xs : List ℝ) (x : ℝ) : ∀ y ∈ xs, xs.foldl smin x ≤ y := by
  induction xs generalizing x with
  | nil => simp
  | cons z zs ih =>
    intro y hy
    simp only [List.foldl_cons]
    rcases List.mem_cons.1 hy with rfl | hy
    · exact (foldl_min_le_init zs _).trans (by rw [smin_real]; exact min_le_right _ _)
    · exact ih _ y hy

theorem foldl_min_mem (xs : List ℝ) (x : ℝ) : xs.foldl smin x = x ∨ xs.foldl smin x ∈ xs := by
  induction xs generalizing x with
  | nil => simp
  | cons z zs ih =>
    simp only [List.foldl_cons]
    rcases ih (smin x z) with h | h
    · rw [h, smin_real]
      rcases min_choice x z with h' | h'
      · exact Or.inl h'
      · exact Or.inr (by rw [h']; exact List.mem_cons_self)
    · exact Or.inr (List.mem_cons_of_mem _ h)

theorem minL_mem {l : List ℝ} (h : l ≠ []) : minL l ∈ l := by
  cases l with
  | nil => exact absurd rfl h
  | cons x xs =>
    simp only [minL]
    rcases foldl_min_mem xs x with h' | h'
    · rw [h']; exact List.mem_cons_self
    · exact List.mem_cons_of_mem _ h'

theorem minL_le {l : List ℝ} : ∀ y ∈ l, minL l ≤ y := by
  cases l with
  | nil => simp
  | cons x xs =>
    intro y hy
    simp only [minL]
    rcases List.mem_cons.1 hy with rfl | hy
    · exact foldl_min_le_init xs _
    · exact foldl_min_le_mem xs x y hy

theorem minL_perm {l l' : List ℝ} (h : l.Perm l') : minL l = minL l' := by
  by_cases hl : l = []
  · subst hl; rw [h.symm.eq_nil] 
  · have hl' : l' ≠ [] := fun e => hl (by subst e; exact h.eq_nil)
    apply le_antisymm
    · exact minL_le _ (h.symm.subset (minL_mem hl'))
    · exact minL_le _ (h.subset (minL_mem hl))

theorem minp_perm (vdim : Nat) {pts pts' : List (Pt ℝ)} (h : pts.Perm pts') : minp vdim pts = minp vdim pts' := by
  unfold minp
  apply List.map_congr_left
  intro c _
  exact minL_perm (h.map _)



/-! ## the linear-time contract check used by the driver implies the contract -/

theorem ordRel_refl (lg : Bool) (a : ℝ) : ordRel lg a a := by cases lg <;> simp [ordRel]

theorem pairwise_of_adjacent {r : ℝ → ℝ → Prop} (htr : ∀ a b c, r a b → r b c → r a c) :
    ∀ xs : List ℝ, (∀ p ∈ xs.zip xs.tail, r p.1 p.2) → xs.Pairwise r
  | [], _ => List.Pairwise.nil
  | [_], _ => by simp
  | a :: b :: rest, h => by
    have hab : r a b := h (a, b) (by simp)
    have ih : (b :: rest).Pairwise r := pairwise_of_adjacent htr (b :: rest) (fun p hp => h p (by
      simp only [List.tail_cons, List.zip_cons_cons, List.mem_cons] at hp ⊢
      exact Or.inr hp))
    rw [List.pairwise_cons]
    refine ⟨?_, ih⟩
    intro y hy
    rcases List.mem_cons.1 hy with rfl | hy
    · exact hab
    · exact htr _ _ _ hab ((List.pairwise_cons.1 ih).1 y hy)

theorem topkOkFast_sound (largest : Bool) (vals : List ℝ) (kk : Nat) (idx : List Nat)
    (h : topkOkFast largest vals kk idx = true) : TopkSpec (ordRel largest) vals kk idx := by
  unfold topkOkFast at h
  simp only [Bool.and_eq_true, beq_iff_eq, List.all_eq_true, decide_eq_true_eq, k0_real] at h
  obtain ⟨⟨⟨⟨h1, h2⟩, h3⟩, h4⟩, h5⟩ := h
  have hpw : (idx.map fun i => vals.getD i 0).Pairwise (ordRel largest) :=
    pairwise_of_adjacent (r := ordRel largest) (fun a b c => ordRel_trans largest) _
      (fun p hp => (leB_iff largest p.1 p.2).1 (h4 p hp))
  refine ⟨h1, h3, h2, hpw, ?_⟩
  intro i hi j hj hnot
  rcases hl : idx.getLast? with _ | l
  · rw [List.getLast?_eq_none_iff] at hl
    subst hl
    simp at hi
  · rw [hl] at h5
    simp only [List.all_eq_true, List.mem_range, Bool.or_eq_true, List.contains_iff_mem, leB_iff] at h5
    have hlj : ordRel largest (vals.getD l 0) (vals.getD j 0) := by
      rcases h5 j hj with h | h
      · exact absurd h hnot
      · exact h
    obtain ⟨ys, rfl⟩ : ∃ ys, idx = ys ++ [l] := by
      rw [List.getLast?_eq_some_iff] at hl
      exact hl
    rw [List.map_append, List.pairwise_append] at hpw
    rcases List.mem_append.1 hi with hi | hi
    · exact ordRel_trans largest (hpw.2.2 _ (List.mem_map.2 ⟨i, hi, rfl⟩) _ (by simp)) hlj
    · simp only [List.mem_singleton] at hi
      subst hi
      exact hlj

/-! ## contracts of the external kernels, brute-force definitions used in the property statements -/

/-- `torch.topk` meets its contract whenever `k` does not exceed the length -/
def TopkContract (topk : Bool → List ℝ → Nat → List Nat) : Prop :=
  ∀ lg vals kk, kk ≤ vals.length → TopkSpec (ordRel lg) vals kk (topk lg vals kk)

theorem topkStd_contract : TopkContract (topkStd (α := ℝ)) := fun lg vals kk hk => topkStd_spec lg vals kk hk

/-- brute force: the cloud sorted by distance to `p`, first `m` points -/
noncomputable def nearest (o : Norm) (pdim m : Nat) (pts : List (Pt ℝ)) (p : Pt ℝ) : List (Pt ℝ) :=
  (pts.mergeSort fun a b => leB false (pdist o pdim p a) (pdist o pdim p b)).take m

/-- "ties excluded": no two different cloud points are at the same distance from `p` -/
def NoTies (o : Norm) (pdim : Nat) (pts : List (Pt ℝ)) (p : Pt ℝ) : Prop :=
  ∀ a ∈ pts, ∀ b ∈ pts, pdist o pdim p a = pdist o pdim p b → a = b

/-- `torch.unique(dim=-2)`: strictly increasing (lexicographic) list of the distinct rows -/
def UniqContract (uniq : List (List Int) → List (List Int)) : Prop :=
  ∀ keys, (uniq keys).Pairwise (fun a b => lexLt a b = true) ∧ ∀ x, x ∈ uniq keys ↔ x ∈ keys

theorem lexLt_irrefl : ∀ a : List Int, lexLt a a = false
  | [] => rfl
  | x :: xs => by simp [lexLt, lexLt_irrefl xs]

theorem lexLt_asymm : ∀ a b : List Int, lexLt a b = true → lexLt b a = true → False
  | [], [], h, _ => by simp [lexLt] at h
  | [], _ :: _, _, h => by simp [lexLt] at h
  | _ :: _, [], h, _ => by simp [lexLt] at h
  | x :: xs, y :: ys, h1, h2 => by
    simp only [lexLt] at h1 h2
    by_cases hxy : x < y
    · have : ¬ y < x := by omega
      simp [hxy, this] at h2
    · by_cases hyx : y < x
      · simp [hxy, hyx] at h1
      · simp only [hxy, hyx, if_false] at h1 h2
        exact lexLt_asymm xs ys (by simpa using h1) (by simpa using h2)

theorem UniqContract.nodup {uniq} (h : UniqContract uniq) (keys : List (List Int)) : (uniq keys).Nodup := by
  refine (h keys).1.imp ?_
  intro a b hab e
  subst e
  rw [lexLt_irrefl] at hab
  exact Bool.false_ne_true hab

/-- the unique list is a function of the *set* of keys -/
theorem UniqContract.perm {uniq} (h : UniqContract uniq) {keys keys' : List (List Int)} (hp : keys.Perm keys') :
    uniq keys = uniq keys' := by
  apply List.Perm.eq_of_pairwise (le := fun a b => lexLt a b = true) _ (h keys).1 (h keys').1
  · rw [List.perm_ext_iff_of_nodup (h.nodup keys) (h.nodup keys')]
    intro a
    rw [(h keys).2, (h keys').2]
    exact hp.mem_iff
  · intro a b _ _ hab hba
    exact (lexLt_asymm a b hab hba).elim


/-! ## camera: pinhole intrinsics, the clamped divisor -/

/-- pinhole intrinsics `[[fx,0,cx],[0,fy,cy],[0,0,1]]` -/
def pinhole (fx fy cx cy : ℝ) : Mat3 ℝ := ⟨⟨fx, 0, cx⟩, ⟨0, fy, cy⟩, ⟨0, 0, 1⟩⟩

/-- away from the clamp the divisor of `homo2cart` is the homogeneous weight itself (sign included) -/
theorem homoDen_eq (tiny w : ℝ) (h : tiny ≤ |w|) : homoDen tiny w = w := by
  unfold homoDen
  rw [spm_real, smax_real, sabs_real, max_eq_left h]
  by_cases hw : w < 0
  · rw [if_pos hw, abs_of_neg hw]; ring
  · rw [if_neg hw, abs_of_nonneg (le_of_not_gt hw)]; ring

theorem map_getD_range' {β : Type} (l : List β) (d : β) : (List.range l.length).map (fun i => l.getD i d) = l := by
  apply List.ext_getElem
  · simp
  · intro i h1 h2
    simp only [List.getElem_map, List.getElem_range]
    exact List.getD_eq_getElem _ _ h2


/-! ## a witness for the `unique` contract (so that it is satisfiable) -/

theorem lexLt_iff : ∀ a b : List Int, lexLt a b = true ↔ a < b
  | [], [] => by simp [lexLt]
  | [], b :: l => by simp [lexLt]
  | a :: l, [] => by simp [lexLt]
  | a :: l, b :: l' => by
    rw [List.cons_lt_cons_iff]
    simp only [lexLt]
    by_cases h1 : a < b
    · simp [h1]
    · by_cases h2 : b < a
      · have : a ≠ b := by omega
        simp [h1, h2, this]
      · have : a = b := by omega
        simp [this, lexLt_iff l l']

/-- the distinct keys in increasing lexicographic order -/
noncomputable def uniqSort (keys : List (List Int)) : List (List Int) := keys.toFinset.sort (· ≤ ·)

theorem uniqSort_contract : UniqContract uniqSort := by
  intro keys
  constructor
  · have h := (Finset.sortedLT_sort keys.toFinset).pairwise
    exact h.imp (fun {a b} hab => (lexLt_iff a b).2 hab)
  · intro x
    simp [uniqSort]


/-! ## `voxel_filter(random=True)`: prefix sums of the counts and blocks of a sorted index list -/

theorem exclCumsum_length : ∀ cs : List Nat, (exclCumsum cs).length = cs.length
  | [] => rfl
  | c :: cs => by simp [exclCumsum, exclCumsum_length cs]

theorem exclCumsum_zero (cs : List Nat) (h : 0 < (exclCumsum cs).length) : (exclCumsum cs)[0] = 0 := by
  cases cs with
  | nil => simp [exclCumsum] at h
  | cons c cs => simp [exclCumsum]

theorem exclCumsum_succ : ∀ (cs : List Nat) (j : Nat) (h : j + 1 < cs.length),
    (exclCumsum cs)[j + 1]'(by rw [exclCumsum_length]; exact h)
      = (exclCumsum cs)[j]'(by rw [exclCumsum_length]; omega) + cs[j]'(by omega)
  | [], j, h => by simp at h
  | c :: cs, 0, h => by
    have h' : 0 < (exclCumsum cs).length := by rw [exclCumsum_length]; simpa using h
    simp [exclCumsum, exclCumsum_zero cs h']
  | c :: cs, j + 1, h => by
    have h' : j + 1 < cs.length := by simpa using h
    simp only [exclCumsum, List.getElem_cons_succ, List.getElem_map]
    rw [exclCumsum_succ cs j h']
    omega

theorem countP_lt_succ (w : List Nat) (j : Nat) :
    w.countP (fun x => decide (x < j + 1)) = w.countP (fun x => decide (x < j)) + w.count j := by
  induction w with
  | nil => simp
  | cons x xs ih =>
    simp only [List.countP_cons, List.count_cons, ih]
    by_cases h1 : x < j
    · have : x < j + 1 := by omega
      have h3 : ¬ x = j := by omega
      simp [h1, this, h3]; omega
    · by_cases h2 : x = j
      · subst h2; simp; omega
      · have : ¬ x < j + 1 := by omega
        simp [h1, h2, this]

theorem sorted_getElem_block : ∀ (w : List Nat) (j i : Nat), w.Pairwise (· ≤ ·) →
    w.countP (fun x => decide (x < j)) ≤ i → i < w.countP (fun x => decide (x < j + 1)) →
    ∃ h : i < w.length, w[i] = j
  | [], j, i, _, _, h2 => by simp at h2
  | x :: xs, j, i, hs, h1, h2 => by
    rw [List.pairwise_cons] at hs
    by_cases hx : x < j
    · have hx' : x < j + 1 := by omega
      simp only [List.countP_cons, hx, hx', decide_true, if_true] at h1 h2
      obtain ⟨i', rfl⟩ : ∃ i', i = i' + 1 := ⟨i - 1, by omega⟩
      obtain ⟨h, e⟩ := sorted_getElem_block xs j i' hs.2 (by omega) (by omega)
      exact ⟨by simpa using h, by simpa using e⟩
    · by_cases hj : x = j
      · subst hj
        have hzero : xs.countP (fun y => decide (y < x)) = 0 := by
          rw [List.countP_eq_zero]
          intro y hy
          have := hs.1 y hy
          simp; omega
        cases i with
        | zero => exact ⟨by simp, by simp⟩
        | succ i' =>
          simp only [List.countP_cons, lt_irrefl, decide_false, Nat.lt_succ_self, decide_true, if_true] at h1 h2
          obtain ⟨h, e⟩ := sorted_getElem_block xs x i' hs.2 (by omega) (by omega)
          exact ⟨by simpa using h, by simpa using e⟩
      · have hzero : (x :: xs).countP (fun y => decide (y < j + 1)) = 0 := by
          rw [List.countP_eq_zero]
          intro y hy
          rcases List.mem_cons.1 hy with rfl | hy
          · simp; omega
          · have := hs.1 y hy
            simp; omega
        omega

theorem idxOf_eq_iff {u : List (List Int)} (hnd : u.Nodup) {x : List Int} (hx : x ∈ u) {j : Nat} (hj : j < u.length) :
    u.idxOf x = j ↔ x = u[j] := by
  have hlt : u.idxOf x < u.length := List.idxOf_lt_length_iff.2 hx
  constructor
  · intro e
    have := List.getElem_idxOf hlt
    simp only [e] at this
    exact this.symm
  · intro e; rw [e]; exact hnd.idxOf_getElem j hj

/-- `torch.argsort`: a permutation of the positions that sorts the values (stability not required) -/
def ArgsortContract (argsort : List Nat → List Nat) : Prop :=
  ∀ xs, (argsort xs).Perm (List.range xs.length) ∧ ((argsort xs).map fun i => xs.getD i 0).Pairwise (· ≤ ·)


/-! ## extrinsics: a rigid transformation and its inverse -/

theorem SE3Act_inv_right (X : SE3 ℝ) (h : X.q.normSq = 1) (p : Vec3 ℝ) : SE3Act X (SE3Act (SE3Inv X) p) = p := by
  simp only [SE3Act, SE3Inv]
  rw [Quat.act_add, Quat.act_neg, Quat.act_conj_act _ h, Quat.act_conj_act _ h]
  ext <;> simp [Vec3.add, Vec3.neg]

theorem SE3Act_inv_left (X : SE3 ℝ) (h : X.q.normSq = 1) (p : Vec3 ℝ) : SE3Act (SE3Inv X) (SE3Act X p) = p := by
  simp only [SE3Act, SE3Inv]
  rw [Quat.act_add, Quat.conj_act_act _ h]
  ext <;> simp [Vec3.add, Vec3.neg]


/-! ## pass 3: truncation, partitions, clamp, dtype constants -/

/-- `.to(torch.int64)` on reals: truncation toward zero -/
noncomputable def truncZ (x : ℝ) : ℤ := if 0 ≤ x then ⌊x⌋ else ⌈x⌉

/-- truncating `w / v` for `w ≥ 0`: the floor of `w / |v|` with the sign of `v` -/
theorem truncZ_div (w v : ℝ) (hw : 0 ≤ w) (hv : v ≠ 0) :
    truncZ (w / v) = (if 0 < v then 1 else -1) * ⌊w / |v|⌋ := by
  unfold truncZ
  rcases lt_or_gt_of_ne hv with h | h
  · -- v < 0
    have habs : |v| = -v := abs_of_neg h
    have hq : w / v = -(w / |v|) := by rw [habs, div_neg, neg_neg]
    have hy : 0 ≤ w / |v| := div_nonneg hw (abs_nonneg v)
    rw [if_neg (not_lt.2 h.le)]
    by_cases h0 : 0 ≤ w / v
    · have hz : w / |v| = 0 := by linarith [hq ▸ h0]
      rw [if_pos h0, hq, hz]; simp
    · rw [if_neg h0, hq, Int.ceil_neg]; ring
  · have habs : |v| = v := abs_of_pos h
    rw [if_pos h, habs, if_pos (div_nonneg hw h.le)]; ring

theorem sum_indicator {β : Type} [DecidableEq β] (u : List β) (x : β) (hnd : u.Nodup) (hx : x ∈ u) :
    (u.map fun kx => if x = kx then 1 else 0).sum = 1 := by
  induction u with
  | nil => simp at hx
  | cons a u ih =>
    rw [List.nodup_cons] at hnd
    by_cases h : x = a
    · subst h
      have : (u.map fun kx => if x = kx then 1 else 0) = u.map fun _ => 0 := by
        apply List.map_congr_left
        intro b hb
        have : x ≠ b := fun e => hnd.1 (e ▸ hb)
        simp [this]
      simp [this]
    · have hx' : x ∈ u := by
        rcases List.mem_cons.1 hx with e | e
        · exact absurd e h
        · exact e
      simp [h, ih hnd.2 hx']

theorem sum_countP_cover {β γ : Type} [DecidableEq γ] (f : β → γ) (u : List γ) (hnd : u.Nodup) :
    ∀ l : List β, (∀ p ∈ l, f p ∈ u) → (u.map fun kx => (l.filter fun p => decide (f p = kx)).length).sum = l.length
  | [], _ => by simp
  | p :: l, h => by
    have ih := sum_countP_cover f u hnd l (fun q hq => h q (List.mem_cons_of_mem _ hq))
    have hp := sum_indicator u (f p) hnd (h p List.mem_cons_self)
    have : (u.map fun kx => ((p :: l).filter fun q => decide (f q = kx)).length)
        = u.map fun kx => (if f p = kx then 1 else 0) + (l.filter fun q => decide (f q = kx)).length := by
      apply List.map_congr_left
      intro kx _
      by_cases e : f p = kx <;> simp [e, Nat.add_comm]
    rw [this, List.sum_map_add, hp, ih, List.length_cons, Nat.add_comm]

theorem homoDen_clamped (tiny w : ℝ) (h : |w| < tiny) : homoDen tiny w = (if w < 0 then -1 else 1) * tiny := by
  unfold homoDen
  rw [spm_real, smax_real, sabs_real, max_eq_right h.le]

theorem finfoTiny_pos_le_one (dt : Dtype) : (0 : ℝ) < finfoTiny dt ∧ (finfoTiny dt : ℝ) ≤ 1 := by
  have key : ∀ n : ℕ, (0 : ℝ) < 1 / ((2 ^ n : ℕ) : ℝ) ∧ 1 / ((2 ^ n : ℕ) : ℝ) ≤ 1 := by
    intro n
    have h1 : (1 : ℝ) ≤ ((2 ^ n : ℕ) : ℝ) := by
      rw [Nat.cast_pow]; exact one_le_pow₀ (by norm_num)
    exact ⟨by positivity, (div_le_one (by linarith)).2 h1⟩
  cases dt
  · simpa only [finfoTiny, q_real, Nat.cast_one] using key 126
  · simpa only [finfoTiny, q_real, Nat.cast_one] using key 1022
  · simpa only [finfoTiny, q_real, Nat.cast_one] using key 14
  · simpa only [finfoTiny, q_real, Nat.cast_one] using key 126

theorem pdist_full (o : Norm) (pd : Nat) (a b : Pt ℝ) (ha : a.length ≤ pd) (hb : b.length ≤ pd) :
    pdist o pd a b = dist o a b := by
  unfold pdist
  rw [List.take_of_length_le ha, List.take_of_length_le hb]

/-- intrinsics with a skew entry `s`: `[[fx,s,cx],[0,fy,cy],[0,0,1]]` -/
def skewK (fx fy cx cy s : ℝ) : Mat3 ℝ := ⟨⟨fx, s, cx⟩, ⟨0, fy, cy⟩, ⟨0, 0, 1⟩⟩


theorem resolvePdim_none_iff (pdim : Option Nat) (D : Nat) : resolvePdim pdim D = none ↔ ∃ p, pdim = some p ∧ D < p := by
  unfold resolvePdim
  cases pdim with
  | none => simp
  | some p => by_cases h : D < p <;> simp [h]

theorem normRaises_iff (o : Norm) (pd : Nat) : normRaises o pd = true ↔ o = .linf ∧ pd = 0 := by
  cases o <;> simp [normRaises]


/-! ## audit round: the exact tie guard of knn_filter, the argsort stand-in, last-row intrinsics -/

/-- the first `m` of a list sorted by `f`, when there is a strict gap after position `m`, are determined as a MULTISET:
any sub-multiset of the list with the same `f`-values is a permutation of them -/
theorem gap_perm {β : Type} (f : β → ℝ) (pts S L : List β) (m : Nat) (hS : S.Perm pts)
    (hgap : ∀ a ∈ S.take m, ∀ b ∈ S.drop m, f a < f b)
    (hL : L.Subperm pts) (hLf : L.map f = (S.take m).map f) : L.Perm (S.take m) := by
  classical
  have hlen : L.length = (S.take m).length := by
    have := congrArg List.length hLf; simpa using this
  apply List.Subperm.perm_of_length_le _ (le_of_eq hlen.symm)
  rw [List.subperm_ext_iff]
  intro x hx
  -- x is not in the tail: its f-value is one of the head's values
  have hfx : f x ∈ (S.take m).map f := by rw [← hLf]; exact List.mem_map.2 ⟨x, hx, rfl⟩
  obtain ⟨a, ha, hfa⟩ := List.mem_map.1 hfx
  have hnot : x ∉ S.drop m := fun hb => by
    have := hgap a ha x hb
    linarith
  have h1 : List.count x L ≤ List.count x pts := hL.count_le x
  have h2 : List.count x pts = List.count x (S.take m) + List.count x (S.drop m) := by
    rw [← hS.count_eq, ← List.count_append, List.take_append_drop]
  rw [List.count_eq_zero_of_not_mem hnot] at h2
  omega

/-- "no tie at the cut": the `m`-th and the `(m+1)`-th smallest distance from `p` differ (all other ties are allowed:
lattices, symmetric clouds, duplicates inside the neighbourhood) -/
def CutGap (o : Norm) (pdim m : Nat) (pts : List (Pt ℝ)) (p : Pt ℝ) : Prop :=
  let S := pts.mergeSort fun a b => leB false (pdist o pdim p a) (pdist o pdim p b)
  ∀ a ∈ S.take m, ∀ b ∈ S.drop m, pdist o pdim p a < pdist o pdim p b

theorem idx_map_subperm {β : Type} (pts : List β) (d0 : β) (idx : List Nat) (hnd : idx.Nodup) (hin : ∀ i ∈ idx, i < pts.length) :
    (idx.map fun i => pts.getD i d0).Subperm pts := by
  have hsub : idx.Subperm (List.range pts.length) :=
    List.subperm_of_subset hnd (fun i hi => by simpa using hin i hi)
  obtain ⟨l, hl, hs⟩ := hsub
  refine ⟨l.map fun i => pts.getD i d0, hl.map _, ?_⟩
  have := hs.map (fun i => pts.getD i d0)
  rwa [map_getD_range'] at this

/-- the points selected by `topk(m)` on the distances from `p` are, as a multiset, the `m` nearest cloud points -/
theorem topk_points_gap (topk : Bool → List ℝ → Nat → List Nat) (htk : TopkContract topk) (o : Norm) (pdim m : Nat) (pts : List (Pt ℝ)) (p : Pt ℝ)
    (hm : m ≤ pts.length) (hg : CutGap o pdim m pts p) :
    ((topk false (pts.map (pdist o pdim p)) m).map fun i => pts.getD i []).Perm (nearest o pdim m pts p) := by
  set f := pdist o pdim p
  have h := htk false (pts.map f) m (by simpa using hm)
  have hin : ∀ i ∈ topk false (pts.map f) m, i < pts.length := fun i hi => by simpa using h.inb i hi
  unfold nearest
  apply gap_perm f pts _ _ m (List.mergeSort_perm _ _) hg (idx_map_subperm pts [] _ h.nodup hin)
  rw [List.map_take, map_sort_key, ← h.values, List.map_map]
  apply List.map_congr_left
  intro i hi
  simp only [Function.comp]
  rw [List.getD_eq_getElem _ _ (hin i hi), List.getD_eq_getElem _ _ (by simpa using hin i hi)]
  simp

/-- the `m` nearest points of a re-ordered cloud are a permutation of the `m` nearest of the original one -/
theorem nearest_perm_gap (o : Norm) (pdim m : Nat) {pts pts' : List (Pt ℝ)} (hp : pts.Perm pts') (p : Pt ℝ)
    (hg : CutGap o pdim m pts p) : (nearest o pdim m pts' p).Perm (nearest o pdim m pts p) := by
  set f := pdist o pdim p
  unfold nearest
  apply gap_perm f pts _ _ m (List.mergeSort_perm _ _) hg
  · exact ((List.take_sublist _ _).subperm).trans ((List.mergeSort_perm _ _).trans hp.symm).subperm
  · rw [List.map_take, List.map_take, map_sort_key, map_sort_key, sortVals_congr false (hp.symm.map f)]

/-- the driver's `argsort` stand-in (positions of the stable merge sort) meets the contract -/
theorem argsortStd_contract : ArgsortContract argsortStd := by
  intro xs
  unfold argsortStd
  set le2 : ℕ × ℕ → ℕ × ℕ → Bool := fun a b => decide (a.1 ≤ b.1) with hle2
  set P := xs.zipIdx.mergeSort le2 with hP
  have hPperm : P.Perm xs.zipIdx := List.mergeSort_perm _ _
  have hPsorted : P.Pairwise (fun a b => le2 a b = true) :=
    List.pairwise_mergeSort (le := le2) (fun a b c h1 h2 => by simp only [hle2, decide_eq_true_eq] at *; omega)
      (fun a b => by simp only [hle2, Bool.or_eq_true, decide_eq_true_eq]; omega) _
  have hkey : ∀ p ∈ P, xs.getD p.2 0 = p.1 := by
    intro p hp
    have := List.mem_zipIdx_iff_getElem?.1 (hPperm.subset hp)
    rw [List.getD_eq_getElem?_getD, this]; rfl
  constructor
  · have := hPperm.map Prod.snd
    rwa [List.zipIdx_map_snd, ← List.range_eq_range'] at this
  · rw [List.map_map, List.pairwise_map]
    refine hPsorted.imp_of_mem ?_
    intro a b ha hb hab
    simp only [Function.comp, hkey a ha, hkey b hb]
    simpa [hle2] using hab

/-- intrinsics whose last row is `(0, 0, w)` -/
def lastRowK (fx fy cx cy w : ℝ) : Mat3 ℝ := ⟨⟨fx, 0, cx⟩, ⟨0, fy, cy⟩, ⟨0, 0, w⟩⟩


/-! ## ties at the selection boundary (class 35) -/

/-- `L` is an admissible choice of the `m` nearest points of `p` in `pts`: a sub-multiset of `m` cloud points such that
no left-out point is closer than a chosen one (ties at the cut may be broken either way) -/
def Admissible (o : Norm) (pdim m : Nat) (pts : List (Pt ℝ)) (p : Pt ℝ) (L : List (Pt ℝ)) : Prop :=
  L.length = m ∧ ∃ R, (L ++ R).Perm pts ∧ ∀ a ∈ L, ∀ b ∈ R, pdist o pdim p a ≤ pdist o pdim p b

/-- whatever `topk` kernel is used, the points it selects form an admissible choice -/
theorem topk_points_admissible (topk : Bool → List ℝ → Nat → List Nat) (htk : TopkContract topk) (o : Norm) (pdim m : Nat) (pts : List (Pt ℝ)) (p : Pt ℝ)
    (hm : m ≤ pts.length) :
    Admissible o pdim m pts p ((topk false (pts.map (pdist o pdim p)) m).map fun i => pts.getD i []) := by
  set f := pdist o pdim p
  set idx := topk false (pts.map f) m with hidx
  have h := htk false (pts.map f) m (by simpa using hm)
  have hin : ∀ i ∈ idx, i < pts.length := fun i hi => by simpa using h.inb i hi
  set rest := (List.range pts.length).filter (fun j => decide (j ∉ idx)) with hrest
  have hnd : (idx ++ rest).Nodup := by
    apply List.Nodup.append h.nodup (List.Nodup.filter _ List.nodup_range)
    intro a ha hb
    simp only [List.mem_filter, decide_eq_true_eq] at hb
    exact hb.2 ha
  have hperm : (idx ++ rest).Perm (List.range pts.length) := by
    rw [List.perm_ext_iff_of_nodup hnd List.nodup_range]
    intro a
    simp only [hrest, List.mem_append, List.mem_filter, List.mem_range, decide_eq_true_eq]
    constructor
    · rintro (ha | ha)
      · exact hin a ha
      · exact ha.1
    · intro ha
      by_cases hm' : a ∈ idx
      · exact Or.inl hm'
      · exact Or.inr ⟨ha, hm'⟩
  refine ⟨by simpa using h.len, rest.map (fun i => pts.getD i []), ?_, ?_⟩
  · have := hperm.map (fun i => pts.getD i [])
    rwa [map_getD_range', List.map_append] at this
  · intro a ha b hb
    simp only [List.mem_map] at ha hb
    obtain ⟨i, hi, rfl⟩ := ha
    obtain ⟨j, hj, rfl⟩ := hb
    simp only [hrest, List.mem_filter, List.mem_range, decide_eq_true_eq] at hj
    have hl := h.least i hi j (by simpa using hj.1) hj.2
    simp only [ordRel] at hl
    have hi' : i < (pts.map f).length := by simpa using hin i hi
    have hj' : j < (pts.map f).length := by simpa using hj.1
    rw [List.getD_eq_getElem (pts.map f) 0 (n := i) hi', List.getD_eq_getElem (pts.map f) 0 (n := j) hj'] at hl
    rw [List.getD_eq_getElem pts [] (n := i) (hin i hi), List.getD_eq_getElem pts [] (n := j) hj.1]
    simpa using hl


/-! ## definitional facts and restatements (moved out of `Proofs/Props/C18.lean` after the audit)

These are consequences of the model's shape alone (a `map`, an `if`, `rfl`): they are NOT statements about a code path.
That a failing call is atomic, that the grad mode is irrelevant, that a batched call takes no batch-level decision, that a
history is stateless are **decided by the correspondence streams** (`hist`, `seq`, item-wise oracles, purity monitor); the
lemmas below only record what the streams compare with. -/

section restated
variable (topk topk' : Bool → List ℝ → Nat → List Nat)

/-- `knn` returns a result exactly when `k ≤ N2` (otherwise `topk` raises), one row per reference point. -/
theorem knn_defined (o : Norm) (lg : Bool) (kk : Nat) (ref nbr : List (Pt ℝ)) :
    (kk ≤ nbr.length → knn topk o lg kk ref nbr = some (ref.map (knnRow topk o lg kk nbr))) ∧
    (nbr.length < kk → knn topk o lg kk ref nbr = none) := by
  unfold knn
  constructor
  · intro h; rw [if_neg (by omega)]
  · intro h; rw [if_pos h]


/-- **knn, permutation of the reference cloud**: rows are computed point by point, so they are permuted along. -/
theorem knn_perm_ref (o : Norm) (lg : Bool) (kk : Nat) {ref ref' : List (Pt ℝ)} (nbr : List (Pt ℝ))
    (hp : ref.Perm ref') :
    (ref.map (knnRow topk o lg kk nbr)).Perm (ref'.map (knnRow topk o lg kk nbr)) := hp.map _


/-- the mask returned with `return_mask=True` marks exactly those points -/
theorem nbr_filter_mask (o : Norm) (pdim : Nat) (r : ℝ) (n : ℤ) (pts : List (Pt ℝ)) :
    nbrMask o pdim r n pts = pts.map (fun p => decide (n ≤ nbrCount o pdim r pts p)) ∧
    nbrFilter o pdim r n pts = selectMask pts (nbrMask o pdim r n pts) := ⟨rfl, rfl⟩


/-- the retained points: all of them without a radius; with a radius `r ≥ 0` exactly those with at least `k`
other points within `r` (same predicate as `nbr_filter`), in input order -/
theorem knn_filter_retained (o : Norm) (pdim kk : Nat) (pts : List (Pt ℝ)) :
    knnRetained o pdim kk none pts = pts ∧
    ∀ r : ℝ, knnRetained o pdim kk (some r) pts = nbrFilter o pdim r (kk : ℤ) pts := ⟨rfl, fun _ => rfl⟩


/-- `knn_filter` raises exactly when the cloud has fewer than `k+1` points (no `k` neighbours exist). -/
theorem knn_filter_defined (o : Norm) (pdim kk : Nat) (radius : Option ℝ) (pts : List (Pt ℝ)) :
    (knnFilter topk o pdim kk radius pts = none ↔ pts.length < kk + 1) := by
  unfold knnFilter
  by_cases h : pts.length < kk + 1 <;> simp [h]


/-- the failed `assert num <= N` -/
theorem random_filter_defined (perm : List Nat) (num : Nat) (pts : List (Pt ℝ)) :
    randomFilter perm num pts = none ↔ pts.length < num := by
  unfold randomFilter
  by_cases h : pts.length < num <;> simp [h]


/-- extrinsics only move the point into the camera frame first -/
theorem point2pixel_ext (tiny : ℝ) (K : Mat3 ℝ) (X : SE3 ℝ) (p : Vec3 ℝ) :
    point2pixel tiny K (some X) p = point2pixel tiny K none (SE3Act X p) := rfl


/-- **statelessness of a call history**: the result of a call is `evalCall` of ITS OWN arguments — the values its
tensors hold at that moment — whatever was called before or after it on whatever objects. -/
theorem history_stateless (tr : ℝ → Int) (uniq : List (List Int) → List (List Int)) (h₁ h₂ : List (Call ℝ)) (c : Call ℝ) :
    (runHistory topk tr uniq (h₁ ++ c :: h₂))[h₁.length]? = some (evalCall topk tr uniq c) := by
  simp [runHistory]


/-- a history in another order gives the same results in that order -/
theorem history_perm (tr : ℝ → Int) (uniq : List (List Int) → List (List Int)) {h h' : List (Call ℝ)} (hp : h.Perm h') :
    (runHistory topk tr uniq h).Perm (runHistory topk tr uniq h') := hp.map _


/-- **error paths are atomic / copies are independent / grad mode is irrelevant** — all three are the purity of the
model: the results of a history with one more call `c` inserted anywhere (a call that fails, `evalCall … c = none`, a call
on a copy, the same call in another grad mode) are the results of the history without it, plus `c`'s own result at its
place. -/
theorem history_atomic (tr : ℝ → Int) (uniq : List (List Int) → List (List Int)) (h₁ h₂ : List (Call ℝ)) (c : Call ℝ) :
    runHistory topk tr uniq (h₁ ++ c :: h₂)
      = runHistory topk tr uniq h₁ ++ evalCall topk tr uniq c :: runHistory topk tr uniq h₂ ∧
    (runHistory topk tr uniq (h₁ ++ c :: h₂)).eraseIdx h₁.length = runHistory topk tr uniq (h₁ ++ h₂) := by
  have e : runHistory topk tr uniq (h₁ ++ c :: h₂)
      = runHistory topk tr uniq h₁ ++ evalCall topk tr uniq c :: runHistory topk tr uniq h₂ := by
    simp [runHistory]
  refine ⟨e, ?_⟩
  rw [e]
  have hl : (runHistory topk tr uniq h₁).length = h₁.length := by simp [runHistory]
  rw [← hl, List.eraseIdx_append_of_length_le (Nat.le_refl _)]
  simp [runHistory]


/-- **item-wise = batched**: item `b` of a batched `knn_filter` / `knn` call is the call on item `b` alone, whatever the
other items of the batch are (no batch-level decision). -/
theorem batched_itemwise (o : Norm) (lg : Bool) (pdim kk : Nat) (clouds : List (List (Pt ℝ)))
    (pairs : List (List (Pt ℝ) × List (Pt ℝ))) (b : Nat) :
    (knnFilterBatch topk o pdim kk clouds)[b]? = (clouds[b]?).map (knnFilter topk o pdim kk none) ∧
    (knnBatch topk o lg kk pairs)[b]? = (pairs[b]?).map (fun p => knn topk o lg kk p.1 p.2) := by
  simp [knnFilterBatch, knnBatch]


/-- **every one of the `N!` orderings**: re-indexing the cloud by ANY permutation `σ` of its positions (not only a
transposition) gives a `List.Perm` of it — so every `…_perm` / `…_equivariant` theorem above applies to it. -/
theorem reindex_perm (pts : List (Pt ℝ)) (σ : Equiv.Perm (Fin pts.length)) :
    (List.ofFn fun i => pts[(σ i).val]).Perm pts := by
  have h := Equiv.Perm.ofFn_comp_perm σ (fun i : Fin pts.length => pts[i.val])
  have e : (List.ofFn fun i : Fin pts.length => pts[i.val]) = pts := List.ofFn_getElem
  rw [e] at h
  exact h


end restated

/-! ## `topk(sorted=False)`: the contract without the order clause (pass 7) -/

/-- `idx` is a valid answer of `topk(k, sorted=False)`: `TopkSpec` without the order clause -/
structure TopkSpecU (r : ℝ → ℝ → Prop) (vals : List ℝ) (kk : Nat) (idx : List Nat) : Prop where
  len : idx.length = kk
  nodup : idx.Nodup
  inb : ∀ i ∈ idx, i < vals.length
  least : ∀ i ∈ idx, ∀ j, j < vals.length → j ∉ idx → r (vals.getD i 0) (vals.getD j 0)

theorem TopkSpec.toU {r vals kk idx} (h : TopkSpec r vals kk idx) : TopkSpecU r vals kk idx :=
  ⟨h.len, h.nodup, h.inb, h.least⟩

theorem topkOkUnsorted_iff (largest : Bool) (vals : List ℝ) (kk : Nat) (idx : List Nat) :
    topkOkUnsorted largest vals kk idx = true ↔ TopkSpecU (ordRel largest) vals kk idx := by
  unfold topkOkUnsorted
  simp only [Bool.and_eq_true, beq_iff_eq, List.all_eq_true, decide_eq_true_eq, k0_real,
    List.mem_range, Bool.or_eq_true, List.contains_iff_mem, leB_iff]
  constructor
  · rintro ⟨⟨⟨h1, h2⟩, h3⟩, h5⟩
    refine ⟨h1, h3, h2, ?_⟩
    intro i hi j hj hnot
    rcases h5 i hi j hj with h | h
    · exact absurd h hnot
    · exact h
  · rintro ⟨h1, h2, h3, h5⟩
    refine ⟨⟨⟨h1, h3⟩, h2⟩, ?_⟩
    intro i hi j hj
    by_cases hm : j ∈ idx
    · exact Or.inl hm
    · exact Or.inr (h5 i hi j hj hm)

/-- the values selected by an UNSORTED `topk` are, as a multiset, the first `k` of the sorted list of all values -/
theorem TopkSpecU.values_perm {lg : Bool} {vals : List ℝ} {kk : Nat} {idx : List Nat}
    (h : TopkSpecU (ordRel lg) vals kk idx) :
    (idx.map fun i => vals.getD i 0).Perm ((sortVals lg vals).take kk) := by
  set v := fun i => vals.getD i 0 with hv
  set rest := (List.range vals.length).filter (fun j => decide (j ∉ idx)) with hrest
  have hnd : (idx ++ rest).Nodup := by
    apply List.Nodup.append h.nodup (List.Nodup.filter _ List.nodup_range)
    intro a ha hb
    simp only [List.mem_filter, decide_eq_true_eq] at hb
    exact hb.2 ha
  have hperm : (idx ++ rest).Perm (List.range vals.length) := by
    rw [List.perm_ext_iff_of_nodup hnd List.nodup_range]
    intro a
    simp only [hrest, List.mem_append, List.mem_filter, List.mem_range, decide_eq_true_eq]
    constructor
    · rintro (ha | ha)
      · exact h.inb a ha
      · exact ha.1
    · intro ha
      by_cases hm : a ∈ idx
      · exact Or.inl hm
      · exact Or.inr ⟨ha, hm⟩
  have hvals : (sortVals lg (idx.map v) ++ sortVals lg (rest.map v)).Perm vals := by
    have h1 : ((idx ++ rest).map v).Perm ((List.range vals.length).map v) := hperm.map v
    rw [map_getD_range, List.map_append] at h1
    exact ((sortVals_perm lg _).append (sortVals_perm lg _)).trans h1
  have hsorted : (sortVals lg (idx.map v) ++ sortVals lg (rest.map v)).Pairwise (ordRel lg) := by
    rw [List.pairwise_append]
    refine ⟨sortVals_pairwise lg _, sortVals_pairwise lg _, ?_⟩
    intro a ha b hb
    have ha' : a ∈ idx.map v := (sortVals_perm lg _).subset ha
    have hb' : b ∈ rest.map v := (sortVals_perm lg _).subset hb
    simp only [List.mem_map] at ha' hb'
    obtain ⟨i, hi, rfl⟩ := ha'
    obtain ⟨j, hj, rfl⟩ := hb'
    simp only [hrest, List.mem_filter, List.mem_range, decide_eq_true_eq] at hj
    exact h.least i hi j hj.1 hj.2
  have heq : sortVals lg vals = sortVals lg (idx.map v) ++ sortVals lg (rest.map v) :=
    sorted_perm_unique lg (sortVals_pairwise lg vals) hsorted ((sortVals_perm lg vals).trans hvals.symm)
  rw [heq, List.take_left']
  · exact (sortVals_perm lg _).symm
  · rw [(sortVals_perm lg _).length_eq]; simp [h.len]

/-- the unsorted kernel meets its contract -/
def TopkContractU (topkU : Bool → List ℝ → Nat → List Nat) : Prop :=
  ∀ lg vals kk, kk ≤ vals.length → TopkSpecU (ordRel lg) vals kk (topkU lg vals kk)

/-! ## the admissible choices under a gap / with ties (pass 7) -/

/-- the brute-force choice (sort by distance, take `m`) is always admissible -/
theorem nearest_admissible (o : Norm) (pdim m : Nat) (pts : List (Pt ℝ)) (p : Pt ℝ) (hm : m ≤ pts.length) :
    Admissible o pdim m pts p (nearest o pdim m pts p) := by
  set f := pdist o pdim p
  set S := pts.mergeSort fun a b => leB false (f a) (f b) with hS
  have hSp : S.Perm pts := List.mergeSort_perm _ _
  refine ⟨by simp [nearest, hm], S.drop m, ?_, ?_⟩
  · unfold nearest; rw [List.take_append_drop]; exact hSp
  · intro a ha b hb
    have hsorted : S.Pairwise (fun a b => leB false (f a) (f b) = true) :=
      List.pairwise_mergeSort (le := fun a b => leB false (f a) (f b))
        (fun a b c => leB_trans false (f a) (f b) (f c)) (fun a b => leB_total false (f a) (f b)) pts
    rw [← List.take_append_drop m S, List.pairwise_append] at hsorted
    have := hsorted.2.2 a ha b hb
    simpa [leB_iff, ordRel] using this

/-- with a strict gap at the cut there is exactly one admissible choice (as a multiset): the brute-force `nearest` -/
theorem admissible_unique_of_gap (o : Norm) (pdim m : Nat) (pts : List (Pt ℝ)) (p : Pt ℝ) (hg : CutGap o pdim m pts p)
    (L : List (Pt ℝ)) (hL : Admissible o pdim m pts p L) : L.Perm (nearest o pdim m pts p) := by
  obtain ⟨hlen, R, hperm, hle⟩ := hL
  set f := pdist o pdim p
  set L' := L.mergeSort fun a b => leB false (f a) (f b) with hL'
  have hL'p : L'.Perm L := List.mergeSort_perm _ _
  have hsorted : (sortVals false (L.map f) ++ sortVals false (R.map f)).Pairwise (ordRel false) := by
    rw [List.pairwise_append]
    refine ⟨sortVals_pairwise false _, sortVals_pairwise false _, ?_⟩
    intro a ha b hb
    have ha' : a ∈ L.map f := (sortVals_perm false _).subset ha
    have hb' : b ∈ R.map f := (sortVals_perm false _).subset hb
    simp only [List.mem_map] at ha' hb'
    obtain ⟨x, hx, rfl⟩ := ha'
    obtain ⟨y, hy, rfl⟩ := hb'
    simpa [ordRel] using hle x hx y hy
  have hvals : (sortVals false (L.map f) ++ sortVals false (R.map f)).Perm (pts.map f) := by
    have h1 := hperm.map f
    rw [List.map_append] at h1
    exact ((sortVals_perm false _).append (sortVals_perm false _)).trans h1
  have key : sortVals false (pts.map f) = sortVals false (L.map f) ++ sortVals false (R.map f) :=
    sorted_perm_unique false (sortVals_pairwise false _) hsorted ((sortVals_perm false _).trans hvals.symm)
  refine hL'p.symm.trans ?_
  unfold nearest
  apply gap_perm f pts _ L' m (List.mergeSort_perm _ _) hg
  · exact hL'p.subperm.trans (((List.sublist_append_left L R).subperm).trans hperm.subperm)
  · rw [map_sort_key, List.map_take, map_sort_key, key, List.take_left']
    rw [(sortVals_perm false _).length_eq]; simp [hlen]

/-! ## selections computed from perturbed (rounded) distances (pass 10) -/

/-- pigeonhole core of the robustness of a `topk` selection: if `idx` (`kk` distinct positions `< n`) is "least" for a relation
that never puts a non-low position before a low one, and there are exactly `kk` low positions, then `idx` IS the low set -/
theorem topk_low_set {n kk : Nat} {idx : List Nat} (low : Nat → Prop) [DecidablePred low] (rel : Nat → Nat → Prop)
    (hlen : idx.length = kk) (hnd : idx.Nodup) (hin : ∀ i ∈ idx, i < n)
    (hleast : ∀ i ∈ idx, ∀ j, j < n → j ∉ idx → rel i j)
    (hsep : ∀ i j, i < n → j < n → ¬ low i → low j → ¬ rel i j)
    (hcount : ((List.range n).filter (fun i => decide (low i))).length = kk) :
    ∀ i, i < n → (i ∈ idx ↔ low i) := by
  set Low := (List.range n).filter (fun i => decide (low i)) with hLow
  have hLnd : Low.Nodup := List.Nodup.filter _ List.nodup_range
  have hmemL : ∀ j, j ∈ Low ↔ j < n ∧ low j := by
    intro j; simp [hLow]
  have hsub : ∀ i ∈ idx, i ∈ Low := by
    intro i hi
    by_contra hnot
    have hnl : ¬ low i := fun hl => hnot ((hmemL i).2 ⟨hin i hi, hl⟩)
    -- some low position is outside idx, otherwise i :: Low fits into idx
    have : ∃ j ∈ Low, j ∉ idx := by
      by_contra hall
      have hall : ∀ x ∈ Low, x ∈ idx := fun x hx => by
        by_contra hx'; exact hall ⟨x, hx, hx'⟩
      have hnd' : (i :: Low).Nodup := List.nodup_cons.2 ⟨hnot, hLnd⟩
      have hss : (i :: Low) ⊆ idx := by
        intro x hx
        rcases List.mem_cons.1 hx with rfl | hx
        · exact hi
        · exact hall x hx
      have := (List.subperm_of_subset hnd' hss).length_le
      simp only [List.length_cons] at this
      omega
    obtain ⟨j, hjL, hjn⟩ := this
    have hj := (hmemL j).1 hjL
    exact hsep i j (hin i hi) hj.1 hnl hj.2 (hleast i hi j hj.1 hjn)
  have hperm : idx.Perm Low :=
    (List.subperm_of_subset hnd hsub).perm_of_length_le (by omega)
  intro i hi
  rw [hperm.mem_iff, hmemL]
  exact ⟨fun h => h.2, fun h => ⟨hi, h⟩⟩

/-- "low" side of a threshold `t` in the direction selected by `largest` -/
def lowSide (lg : Bool) (t x : ℝ) : Prop := ordRel lg x t

noncomputable instance (lg : Bool) (t x : ℝ) : Decidable (lowSide lg t x) := by unfold lowSide ordRel; infer_instance

/-- **a `topk` selection is robust to perturbed values**: `vals'` (what the float code computed) within `δ` of the exact `vals`,
every exact value either on the low side of a threshold `t` or beyond `t` by more than `2δ`, exactly `kk` values on the low side.
Then any valid (unsorted) `topk` answer on the PERTURBED values is exactly the set of positions on the low side. -/
theorem TopkSpecU.robust {lg : Bool} {vals vals' : List ℝ} {kk : Nat} {idx : List Nat} {δ t : ℝ}
    (hlen : vals'.length = vals.length)
    (hδ : ∀ i, i < vals.length → |vals'.getD i 0 - vals.getD i 0| ≤ δ)
    (hband : ∀ i, i < vals.length → lowSide lg t (vals.getD i 0) ∨
      (if lg then vals.getD i 0 < t - 2 * δ else t + 2 * δ < vals.getD i 0))
    (hcount : ((List.range vals.length).filter fun i => decide (lowSide lg t (vals.getD i 0))).length = kk)
    (h : TopkSpecU (ordRel lg) vals' kk idx) :
    ∀ i, i < vals.length → (i ∈ idx ↔ lowSide lg t (vals.getD i 0)) := by
  apply topk_low_set (n := vals.length) (fun i => lowSide lg t (vals.getD i 0))
    (fun i j => ordRel lg (vals'.getD i 0) (vals'.getD j 0)) h.len h.nodup (fun i hi => hlen ▸ h.inb i hi)
    (fun i hi j hj hn => h.least i hi j (hlen ▸ hj) hn) ?_ hcount
  intro i j hi hj hni hlj hrel
  have hi' := abs_le.1 (hδ i hi)
  have hj' := abs_le.1 (hδ j hj)
  have hb := (hband i hi).resolve_left hni
  cases lg
  · simp only [lowSide, ordRel, Bool.false_eq_true, if_false] at hlj hrel hb
    linarith [hi'.1, hj'.2]
  · simp only [lowSide, ordRel, if_true] at hlj hrel hb
    linarith [hi'.2, hj'.1]


/-- two valid selections on (differently) perturbed values pick the same positions -/
theorem TopkSpecU.robust_perm {lg : Bool} {vals v1 v2 : List ℝ} {kk : Nat} {i1 i2 : List Nat} {δ t : ℝ}
    (hl1 : v1.length = vals.length) (hl2 : v2.length = vals.length)
    (hδ1 : ∀ i, i < vals.length → |v1.getD i 0 - vals.getD i 0| ≤ δ)
    (hδ2 : ∀ i, i < vals.length → |v2.getD i 0 - vals.getD i 0| ≤ δ)
    (hband : ∀ i, i < vals.length → lowSide lg t (vals.getD i 0) ∨
      (if lg then vals.getD i 0 < t - 2 * δ else t + 2 * δ < vals.getD i 0))
    (hcount : ((List.range vals.length).filter fun i => decide (lowSide lg t (vals.getD i 0))).length = kk)
    (h1 : TopkSpecU (ordRel lg) v1 kk i1) (h2 : TopkSpecU (ordRel lg) v2 kk i2) : i1.Perm i2 := by
  rw [List.perm_ext_iff_of_nodup h1.nodup h2.nodup]
  intro a
  have r1 := TopkSpecU.robust hl1 hδ1 hband hcount h1
  have r2 := TopkSpecU.robust hl2 hδ2 hband hcount h2
  constructor
  · intro ha
    have hlt : a < vals.length := hl1 ▸ h1.inb a ha
    exact (r2 a hlt).2 ((r1 a hlt).1 ha)
  · intro ha
    have hlt : a < vals.length := hl2 ▸ h2.inb a ha
    exact (r1 a hlt).2 ((r2 a hlt).1 ha)

/-- `nbr_filter`'s mask computed from perturbed distances: outside the band `|d − r| ≤ δ` it is the exact mask -/
theorem nbrMask_robust (o : Norm) (pdim : Nat) (r δ : ℝ) (n : ℤ) (pts : List (Pt ℝ)) (d' : Pt ℝ → Pt ℝ → ℝ)
    (hδ : ∀ p ∈ pts, ∀ q ∈ pts, |d' p q - pdist o pdim p q| ≤ δ)
    (hband : ∀ p ∈ pts, ∀ q ∈ pts, δ < |pdist o pdim p q - r|) :
    (pts.map fun p => decide (n ≤ (pts.countP (fun q => decide (d' p q ≤ r)) : ℤ) - 1)) = nbrMask o pdim r n pts := by
  unfold nbrMask nbrCount
  apply List.map_congr_left
  intro p hp
  have : pts.countP (fun q => decide (d' p q ≤ r)) = pts.countP (within o pdim r p) := by
    apply List.countP_congr
    intro q hq
    have h1 := abs_le.1 (hδ p hp q hq)
    have h2 := hband p hp q hq
    simp only [within, le_real, decide_eq_true_eq]
    constructor
    · intro h
      by_contra hc
      have hc := not_le.1 hc
      rw [abs_of_pos (by linarith)] at h2
      linarith [h1.1]
    · intro h
      by_contra hc
      have hc := not_le.1 hc
      rw [abs_of_nonpos (by linarith)] at h2
      linarith [h1.2]
  rw [this]


theorem map_dist_getD (f : Pt ℝ → ℝ) (pts : List (Pt ℝ)) (j : Nat) (hj : j < pts.length) :
    (pts.map f).getD j 0 = f (pts.getD j []) := by
  rw [List.getD_eq_getElem (pts.map f) 0 (n := j) (by simpa using hj), List.getD_eq_getElem pts [] (n := j) hj]
  simp


/-- a truncating conversion is robust: `y'` within `δ` of `y ≥ 0`, `y` farther than `δ` from every integer → same integer -/
theorem trunc_robust (tr : ℝ → Int) (htr : ∀ x : ℝ, 0 ≤ x → (tr x : ℝ) ≤ x ∧ x < (tr x : ℝ) + 1)
    (y y' δ : ℝ) (hy : 0 ≤ y) (hδ : |y' - y| ≤ δ) (hband : ∀ z : ℤ, δ < |y - (z : ℝ)|) : tr y' = tr y := by
  obtain ⟨h1, h2⟩ := htr y hy
  have hd := abs_le.1 hδ
  have ha := hband (tr y)
  rw [abs_of_nonneg (by linarith)] at ha
  have hb := hband (tr y + 1)
  rw [Int.cast_add, Int.cast_one, abs_of_neg (by linarith)] at hb
  have ha0 : (0 : ℝ) ≤ (tr y : ℝ) := by
    have : (-1 : ℝ) < (tr y : ℝ) := by linarith
    have : (-1 : ℤ) < tr y := by exact_mod_cast this
    have : (0 : ℤ) ≤ tr y := by omega
    exact_mod_cast this
  have hy' : 0 ≤ y' := by linarith [hd.1]
  obtain ⟨g1, g2⟩ := htr y' hy'
  have e1 : (tr y' : ℝ) < (tr y : ℝ) + 1 := by linarith [hd.2]
  have e2 : (tr y : ℝ) < (tr y' : ℝ) + 1 := by linarith [hd.1]
  have e1' : tr y' < tr y + 1 := by exact_mod_cast e1
  have e2' : tr y < tr y' + 1 := by exact_mod_cast e2
  omega


theorem knnRetained_subset (o : Norm) (pdim kk : Nat) (radius : Option ℝ) (pts : List (Pt ℝ)) :
    ∀ p ∈ knnRetained o pdim kk radius pts, p ∈ pts := by
  intro p hp
  cases radius with
  | none => exact hp
  | some r =>
    simp only [knnRetained, nbrMask, selectMask_map] at hp
    exact (List.mem_filter.1 hp).1

/-- the rows the code retains when its radius mask is computed from the distance `D'` (all rows without a radius) -/
noncomputable def knnRetainedWith (D' : Pt ℝ → Pt ℝ → ℝ) (kk : Nat) (radius : Option ℝ) (pts : List (Pt ℝ)) : List (Pt ℝ) :=
  match radius with
  | none => pts
  | some r => selectMask pts (pts.map fun p => decide ((kk : ℤ) ≤ (pts.countP (fun q => decide (D' p q ≤ r)) : ℤ) - 1))

end PP.Cloud
