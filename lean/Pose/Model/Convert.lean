import Pose.Model.Lie
/-!
# Model of `pypose/lietensor/convert.py` (`mat2SO3`, `mat2SE3`, `mat2Sim3`, `mat2RxSO3`, `from_matrix`,
`euler2SO3`) and of `LieTensor.euler` (`lietensor.py`)

Same branch structure as the code.  Conventions:

* the code works on `rmat_t = mat.mT`; the model does the same (`T := R.transpose`), so every index in the
  candidate formulas can be read off the source line by line;
* the 0/1 float masks `mask_c0 … mask_c3` are an `if` (`mat2SO3Region`);
* `check=True` is a batch-level test in the code (`torch.allclose` over the whole tensor): the batch functions
  `mat2SO3Batch …` model exactly that, including which message is raised first;
* `torch.det` is an external kernel: the parameter `detK` (contract: it is the determinant);
* `torch.pow(d, 1/3)` is `exp (log d / 3)` for `d > 0`, `0` for `d = 0` and NaN for `d < 0` (`powThird`);
* a result that the code returns *without raising* but that contains NaN/inf is the pseudo-error `nonFinite`.
-/

namespace PP

variable {α : Type} [Scalar α]

/-- which `ValueError` the code raises (`nonFinite`: no exception, NaN/inf in the returned tensor) -/
inductive ConvErr where
  | notOrthogonal
  | detNotOne
  | notFullRank
  | nonFinite
deriving Repr, DecidableEq, Inhabited

def ConvErr.name : ConvErr → String
  | .notOrthogonal => "notOrthogonal"
  | .detNotOne => "detNotOne"
  | .notFullRank => "notFullRank"
  | .nonFinite => "nonFinite"

/-- one entry of `torch.allclose(input, other, rtol, atol)` : `|input − other| ≤ atol + rtol·|other|` -/
def closeTo (rtol atol a b : α) : Bool := Scalar.le (sabs (a - b)) (atol + rtol * sabs b)

def Vec3.allclose (rtol atol : α) (a b : Vec3 α) : Bool :=
  closeTo rtol atol a.x b.x && closeTo rtol atol a.y b.y && closeTo rtol atol a.z b.z

def Mat3.allclose (rtol atol : α) (A B : Mat3 α) : Bool :=
  Vec3.allclose rtol atol A.r0 B.r0 && Vec3.allclose rtol atol A.r1 B.r1 && Vec3.allclose rtol atol A.r2 B.r2

/-- elementwise division by a scalar (`rot / s`) -/
def Mat3.divS (A : Mat3 α) (s : α) : Mat3 α :=
  ⟨⟨A.r0.x / s, A.r0.y / s, A.r0.z / s⟩, ⟨A.r1.x / s, A.r1.y / s, A.r1.z / s⟩, ⟨A.r2.x / s, A.r2.y / s, A.r2.z / s⟩⟩

/-! ## `mat2SO3` : branch-selected matrix → quaternion -/

/-- one candidate `q_i` of the code in the code's `(w, x, y, z)` order together with its `t_i` -/
structure Cand (α : Type) where
  t : α
  w : α
  x : α
  y : α
  z : α
deriving Repr, Inhabited

/-- `t0`, `q0` (argument is `rmat_t`) -/
def cand0 (T : Mat3 α) : Cand α :=
  let t := k 1 + T.r0.x - T.r1.y - T.r2.z
  ⟨t, T.r1.z - T.r2.y, t, T.r0.y + T.r1.x, T.r2.x + T.r0.z⟩
/-- `t1`, `q1` -/
def cand1 (T : Mat3 α) : Cand α :=
  let t := k 1 - T.r0.x + T.r1.y - T.r2.z
  ⟨t, T.r2.x - T.r0.z, T.r0.y + T.r1.x, t, T.r1.z + T.r2.y⟩
/-- `t2`, `q2` -/
def cand2 (T : Mat3 α) : Cand α :=
  let t := k 1 - T.r0.x - T.r1.y + T.r2.z
  ⟨t, T.r0.y - T.r1.x, T.r2.x + T.r0.z, T.r1.z + T.r2.y, t⟩
/-- `t3`, `q3` -/
def cand3 (T : Mat3 α) : Cand α :=
  let t := k 1 + T.r0.x + T.r1.y + T.r2.z
  ⟨t, t, T.r1.z - T.r2.y, T.r2.x - T.r0.z, T.r0.y - T.r1.x⟩

def candOf (T : Mat3 α) : Nat → Cand α
  | 0 => cand0 T
  | 1 => cand1 T
  | 2 => cand2 T
  | _ => cand3 T

/-- index of the mask that is 1: `mask_d2 = T22 < atol`, `mask_d0_d1 = T00 > T11`, `mask_d0_nd1 = T00 < −T11` -/
def mat2SO3Region (atol : α) (T : Mat3 α) : Nat :=
  let d2 := Scalar.lt T.r2.z atol
  let d0d1 := Scalar.lt T.r1.y T.r0.x
  let d0nd1 := Scalar.lt T.r0.x (-T.r1.y)
  if d2 then (if d0d1 then 0 else 1) else (if d0nd1 then 2 else 3)

/-- `q /= 2·sqrt(t)` and the final `index_select([1,2,3,0])` to PyPose order `(x, y, z, w)` -/
def Cand.toQuat (c : Cand α) : Quat α :=
  let d := k 2 * Scalar.sqrt c.t
  ⟨c.x / d, c.y / d, c.z / d, c.w / d⟩

/-- the conversion proper (what `mat2SO3(check=False)` computes for one item) -/
def mat2SO3Raw (atol : α) (R : Mat3 α) : Quat α :=
  let T := R.transpose
  (candOf T (mat2SO3Region atol T)).toQuat

/-- `allclose(mat @ mat.mT, eye)` for one item -/
def orthOk (rtol atol : α) (R : Mat3 α) : Bool := Mat3.allclose rtol atol (R.mul R.transpose) Mat3.one
/-- `allclose(det(mat), 1)` for one item, `d` the value returned by the determinant kernel -/
def detOk (rtol atol : α) (d : α) : Bool := closeTo rtol atol d (k 1)

/-- `mat2SO3` on a batch: the two `allclose` tests look at the whole batch, orthogonality first -/
def mat2SO3Batch (detK : Mat3 α → α) (check : Bool) (rtol atol : α) (Rs : List (Mat3 α)) :
    Except ConvErr (List (Quat α)) :=
  if check && !(Rs.all (orthOk rtol atol)) then .error .notOrthogonal
  else if check && !(Rs.all fun R => detOk rtol atol (detK R)) then .error .detNotOne
  else .ok (Rs.map (mat2SO3Raw atol))

/-- one item -/
def mat2SO3 (detK : Mat3 α → α) (check : Bool) (rtol atol : α) (R : Mat3 α) : Except ConvErr (Quat α) :=
  if check && !(orthOk rtol atol R) then .error .notOrthogonal
  else if check && !(detOk rtol atol (detK R)) then .error .detNotOne
  else .ok (mat2SO3Raw atol R)

/-! ## input layouts `(*,3,3)`, `(*,3,4)`, `(*,4,4)` -/

inductive Layout where
  | m33
  | m34
  | m44
deriving Repr, DecidableEq, Inhabited

/-- the blocks of one input matrix: `R = mat[:3,:3]`, `t = mat[:3,3]` (absent for 3×3),
`last = mat[3,:3]`, `l3 = mat[3,3]` (4×4 only) -/
structure MatIn (α : Type) where
  lay : Layout
  R : Mat3 α
  t : Vec3 α
  last : Vec3 α
  l3 : α
deriving Repr, Inhabited

/-- translation taken by `mat2SE3` / `mat2Sim3`: zeros for a 3×3 input, the last column otherwise -/
def MatIn.tOf (m : MatIn α) : Vec3 α :=
  match m.lay with
  | .m33 => Vec3.zero
  | _ => m.t

/-- blocks of a dense matrix given by rows (3 or 4 rows of 3 or 4 entries) -/
def MatIn.ofDMat (lay : Layout) (M : DMat α) : MatIn α :=
  let e := fun (i j : Nat) => (M.getD i []).getD j (k 0)
  ⟨lay, ⟨⟨e 0 0, e 0 1, e 0 2⟩, ⟨e 1 0, e 1 1, e 1 2⟩, ⟨e 2 0, e 2 1, e 2 2⟩⟩, ⟨e 0 3, e 1 3, e 2 3⟩,
    ⟨e 3 0, e 3 1, e 3 2⟩, e 3 3⟩

/-- the row test behind the warning of `mat2SE3` / `mat2Sim3`: a 4×4 item whose last row is not `(0 0 0 1)` within the
tolerances, with `check=True` (which converters perform it: `lastRowWarnBatch` below) -/
def lastRowWarn (check : Bool) (rtol atol : α) (m : MatIn α) : Bool :=
  match m.lay with
  | .m44 => check && !(Vec3.allclose rtol atol m.last Vec3.zero && closeTo rtol atol m.l3 (k 1))
  | _ => false

/-! ## `mat2SE3` -/

def mat2SE3Batch (detK : Mat3 α → α) (check : Bool) (rtol atol : α) (ms : List (MatIn α)) :
    Except ConvErr (List (SE3 α)) :=
  match mat2SO3Batch detK check rtol atol (ms.map (·.R)) with
  | .error e => .error e
  | .ok qs => .ok (List.zipWith (fun m q => (⟨m.tOf, q⟩ : SE3 α)) ms qs)

def mat2SE3 (detK : Mat3 α → α) (check : Bool) (rtol atol : α) (m : MatIn α) : Except ConvErr (SE3 α) :=
  match mat2SO3 detK check rtol atol m.R with
  | .error e => .error e
  | .ok q => .ok ⟨m.tOf, q⟩

/-! ## scale extraction: `s = det(rot)^(1/3)` -/

/-- `torch.pow(d, 1/3)` : `none` is NaN (negative base) -/
def powThird (d : α) : Option α :=
  if Scalar.lt (k 0) d then some (Scalar.exp (Scalar.log d / k 3))
  else if Scalar.lt d (k 0) then none
  else some (k 0)

/-- `allclose(s, 0)` for one item (NaN is close to nothing) -/
def scaleTiny (rtol atol : α) (s : Option α) : Bool :=
  match s with
  | some v => closeTo rtol atol v (k 0)
  | none => false

/-- the rank test of `mat2Sim3` / `mat2RxSO3`: `s.numel() > 0 and allclose(s, zeros_like(s))` over the *whole
batch* — it fires iff the batch is non-empty and every item has a tiny scale (repaired code, D26; before the
repair the comparison was against zeros of the wrong shape and fired on the empty batch) -/
def rankTestFails (rtol atol : α) (ss : List (Option α)) : Bool := !ss.isEmpty && ss.all (scaleTiny rtol atol)

/-- is the item's scale usable for `rot / s` (finite, non-zero)? -/
def scaleUsable (s : Option α) : Option α :=
  match s with
  | some v => if Scalar.lt (k 0) v then some v else none
  | none => none

/-- rotation part of the scaled conversions for a batch: `mat2SO3(rot / s)`; an item whose scale is `0` or
NaN turns `rot / s` into inf/NaN: `check=True` then raises at the orthogonality test, `check=False` returns
non-finite numbers silently -/
def scaledRotBatch (detK : Mat3 α → α) (check : Bool) (rtol atol : α) (Rs : List (Mat3 α)) :
    Except ConvErr (List (Quat α × α)) :=
  let ss := Rs.map fun R => powThird (detK R)
  if rankTestFails rtol atol ss then .error .notFullRank
  else if ss.all (fun s => (scaleUsable s).isSome) then
    let vs := ss.map fun s => (scaleUsable s).getD (k 1)
    let Qs := List.zipWith (fun R v => Mat3.divS R v) Rs vs
    match mat2SO3Batch detK check rtol atol Qs with
    | .error e => .error e
    | .ok qs => .ok (List.zip qs vs)
  else if check then .error .notOrthogonal
  else .error .nonFinite

def mat2Sim3Batch (detK : Mat3 α → α) (check : Bool) (rtol atol : α) (ms : List (MatIn α)) :
    Except ConvErr (List (Sim3 α)) :=
  match scaledRotBatch detK check rtol atol (ms.map (·.R)) with
  | .error e => .error e
  | .ok qs => .ok (List.zipWith (fun m (p : Quat α × α) => (⟨m.tOf, p.1, p.2⟩ : Sim3 α)) ms qs)

def mat2RxSO3Batch (detK : Mat3 α → α) (check : Bool) (rtol atol : α) (ms : List (MatIn α)) :
    Except ConvErr (List (RxSO3 α)) :=
  match scaledRotBatch detK check rtol atol (ms.map (·.R)) with
  | .error e => .error e
  | .ok qs => .ok (qs.map fun (p : Quat α × α) => (⟨p.1, p.2⟩ : RxSO3 α))

/-- one item (a batch of one) -/
def mat2Sim3 (detK : Mat3 α → α) (check : Bool) (rtol atol : α) (m : MatIn α) : Except ConvErr (Sim3 α) :=
  match mat2Sim3Batch detK check rtol atol [m] with
  | .ok [X] => .ok X
  | .ok _ => .error .nonFinite
  | .error e => .error e

def mat2RxSO3 (detK : Mat3 α → α) (check : Bool) (rtol atol : α) (m : MatIn α) : Except ConvErr (RxSO3 α) :=
  match mat2RxSO3Batch detK check rtol atol [m] with
  | .ok [X] => .ok X
  | .ok _ => .error .nonFinite
  | .error e => .error e

/-! ## `from_matrix` : dispatch on the ltype, result in PyPose storage order -/

inductive GTy where
  | SO3
  | SE3
  | Sim3
  | RxSO3
deriving Repr, DecidableEq, Inhabited

/-- the last-row **warning** (not an error): only `mat2SE3` and `mat2Sim3` look at the last row of a 4×4 input
(`convert.py`: `if shape[-2:] == (4, 4) and check == True: … allclose(mat[..., 3, :], [0,0,0,1])` over the whole batch);
`mat2SO3` and `mat2RxSO3` never inspect it -/
def lastRowWarnBatch (ty : GTy) (check : Bool) (rtol atol : α) (ms : List (MatIn α)) : Bool :=
  match ty with
  | .SE3 => ms.any (lastRowWarn check rtol atol)
  | .Sim3 => ms.any (lastRowWarn check rtol atol)
  | _ => false

def fromMatrixBatch (ty : GTy) (detK : Mat3 α → α) (check : Bool) (rtol atol : α) (ms : List (MatIn α)) :
    Except ConvErr (List (List α)) :=
  match ty with
  | .SO3 => (mat2SO3Batch detK check rtol atol (ms.map (·.R))).map (·.map Quat.toList)
  | .SE3 => (mat2SE3Batch detK check rtol atol ms).map (·.map SE3.toList)
  | .Sim3 => (mat2Sim3Batch detK check rtol atol ms).map (·.map Sim3.toList)
  | .RxSO3 => (mat2RxSO3Batch detK check rtol atol ms).map (·.map RxSO3.toList)

/-! ## Euler angles -/

/-- `asin` through the class's `atan2`: `asin x = atan2 x (sqrt (1 − x²))` on `[-1, 1]`
(proved equal to `Real.arcsin` at `α = ℝ`: `sasin_real`) -/
def sasin (x : α) : α := Scalar.atan2 x (Scalar.sqrt (k 1 - x * x))

/-- `euler2SO3` : `e = (roll, pitch, yaw)` -/
def euler2SO3 (e : Vec3 α) : Quat α :=
  let cy := Scalar.cos (e.z * q 1 2); let sy := Scalar.sin (e.z * q 1 2)
  let cp := Scalar.cos (e.y * q 1 2); let sp := Scalar.sin (e.y * q 1 2)
  let cr := Scalar.cos (e.x * q 1 2); let sr := Scalar.sin (e.x * q 1 2)
  ⟨sr * cp * cy - cr * sp * sy,
   cr * sp * cy + sr * cp * sy,
   cr * cp * sy - sr * sp * cy,
   cr * cp * cy + sr * sp * sy⟩

/-- the five intermediate quantities of `LieTensor.euler` -/
structure EulerT (α : Type) where
  t0 : α
  t1 : α
  t2 : α
  t3 : α
  t4 : α

def eulerT (p : Quat α) : EulerT α :=
  let xx := p.x * p.x; let yy := p.y * p.y; let zz := p.z * p.z; let ww := p.w * p.w
  ⟨k 2 * (p.w * p.x + p.y * p.z),
   (ww + zz) - (xx + yy),
   k 2 * (p.w * p.y - p.z * p.x) / (xx + yy + zz + ww),
   k 2 * (p.w * p.z + p.x * p.y),
   (ww + xx) - (yy + zz)⟩

/-- `flag = |t2| < 1 − eps` : away from the gimbal-lock singularity -/
def eulerRegular (eps : α) (p : Quat α) : Bool := Scalar.lt (sabs (eulerT p).t2) (k 1 - eps)

/-- `LieTensor.euler(eps)` : `(roll, pitch, yaw)` -/
def SO3euler (eps : α) (p : Quat α) : Vec3 α :=
  let T := eulerT p
  let flag := eulerRegular eps p
  let roll := if flag then Scalar.atan2 T.t0 T.t1 else k 0
  let pitch := sasin (sclamp (-(k 1)) (k 1) T.t2)
  let yaw := if flag then Scalar.atan2 T.t3 T.t4 else -(k 2) * spm T.t2 * Scalar.atan2 p.x p.w
  ⟨roll, pitch, yaw⟩

/-- elementary rotations (for the statement `euler2SO3 = Rz(yaw)·Ry(pitch)·Rx(roll)`) -/
def rotX (a : α) : Mat3 α :=
  ⟨⟨k 1, k 0, k 0⟩, ⟨k 0, Scalar.cos a, -Scalar.sin a⟩, ⟨k 0, Scalar.sin a, Scalar.cos a⟩⟩
def rotY (a : α) : Mat3 α :=
  ⟨⟨Scalar.cos a, k 0, Scalar.sin a⟩, ⟨k 0, k 1, k 0⟩, ⟨-Scalar.sin a, k 0, Scalar.cos a⟩⟩
def rotZ (a : α) : Mat3 α :=
  ⟨⟨Scalar.cos a, -Scalar.sin a, k 0⟩, ⟨Scalar.sin a, Scalar.cos a, k 0⟩, ⟨k 0, k 0, k 1⟩⟩
/-- `Rz(yaw)·Ry(pitch)·Rx(roll)` -/
def eulerMat (e : Vec3 α) : Mat3 α := ((rotZ e.z).mul (rotY e.y)).mul (rotX e.x)

end PP
