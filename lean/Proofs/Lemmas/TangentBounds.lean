import Proofs.Lemmas.Tangent
import Mathlib.Analysis.Complex.Trigonometric
import Mathlib.Tactic.Positivity
import Mathlib.Tactic.FieldSimp
import Mathlib.Tactic.Linarith
/-! Higher-order Taylor bounds for `sin`, `cos` (same proof as Mathlib's `sin_bound`, `cos_bound`, with more terms) and the
agreement of `calcQ`'s closed-form coefficients with its series (property C05). -/
open Complex Finset

theorem Complex.cos_bound10 {x : ℂ} (hx : ‖x‖ ≤ 1) :
    ‖cos x - (1 - x ^ 2 / 2 + x ^ 4 / 24 - x ^ 6 / 720 + x ^ 8 / 40320)‖ ≤ ‖x‖ ^ 10 * (11 / 36288000) :=
  calc
    ‖cos x - (1 - x ^ 2 / 2 + x ^ 4 / 24 - x ^ 6 / 720 + x ^ 8 / 40320)‖ =
        ‖(exp (-x * I) - ∑ m ∈ range 10, (-x * I) ^ m / m.factorial) / 2 +
         (exp (x * I) - ∑ m ∈ range 10, (x * I) ^ m / m.factorial) / 2‖ := by
      simp [cos, field, Finset.sum_range_succ, Nat.factorial]
      grind [I_sq, two_ne_zero]
    _ ≤ ‖exp (-x * I) - ∑ m ∈ range 10, (-x * I) ^ m / m.factorial‖ / 2 +
        ‖exp (x * I) - ∑ m ∈ range 10, (x * I) ^ m / m.factorial‖ / 2 := by
      grw [norm_add_le]
      simp
    _ ≤ ‖-x * I‖ ^ 10 * (Nat.succ 10 * (Nat.factorial 10 * (10 : ℕ) : ℝ)⁻¹) / 2 +
        ‖x * I‖ ^ 10 * (Nat.succ 10 * (Nat.factorial 10 * (10 : ℕ) : ℝ)⁻¹) / 2 := by
      grw [exp_bound (by simpa) (by simp), exp_bound (by simpa) (by simp)]
    _ = ‖x‖ ^ 10 * (11 / 36288000) := by norm_num [mul_one_div, Nat.factorial]

theorem Complex.sin_bound11 {x : ℂ} (hx : ‖x‖ ≤ 1) :
    ‖sin x - (x - x ^ 3 / 6 + x ^ 5 / 120 - x ^ 7 / 5040 + x ^ 9 / 362880)‖ ≤ ‖x‖ ^ 11 * (12 / 439084800) :=
  calc
    ‖sin x - (x - x ^ 3 / 6 + x ^ 5 / 120 - x ^ 7 / 5040 + x ^ 9 / 362880)‖ =
        ‖(exp (-x * I) - ∑ m ∈ range 11, (-x * I) ^ m / m.factorial) * I / 2 -
         (exp (x * I) - ∑ m ∈ range 11, (x * I) ^ m / m.factorial) * I / 2‖ := by
      simp [sin, field, Finset.sum_range_succ, Nat.factorial]
      grind [I_sq, two_ne_zero]
    _ ≤ ‖exp (-x * I) - ∑ m ∈ range 11, (-x * I) ^ m / m.factorial‖ / 2 +
        ‖exp (x * I) - ∑ m ∈ range 11, (x * I) ^ m / m.factorial‖ / 2 := by
      grw [norm_sub_le]
      simp
    _ ≤ ‖-x * I‖ ^ 11 * (Nat.succ 11 * (Nat.factorial 11 * (11 : ℕ) : ℝ)⁻¹) / 2 +
        ‖x * I‖ ^ 11 * (Nat.succ 11 * (Nat.factorial 11 * (11 : ℕ) : ℝ)⁻¹) / 2 := by
      grw [exp_bound (by simpa) (by simp), exp_bound (by simpa) (by simp)]
    _ = ‖x‖ ^ 11 * (12 / 439084800) := by norm_num [mul_one_div, Nat.factorial]

theorem Real.cos_bound10 {x : ℝ} (hx : |x| ≤ 1) :
    |Real.cos x - (1 - x ^ 2 / 2 + x ^ 4 / 24 - x ^ 6 / 720 + x ^ 8 / 40320)| ≤ |x| ^ 10 * (11 / 36288000) := by
  simpa [← ofReal_cos, ← norm_eq_abs, ← norm_real] using Complex.cos_bound10 (x := x) (by simpa)

theorem Real.sin_bound11 {x : ℝ} (hx : |x| ≤ 1) :
    |Real.sin x - (x - x ^ 3 / 6 + x ^ 5 / 120 - x ^ 7 / 5040 + x ^ 9 / 362880)| ≤ |x| ^ 11 * (12 / 439084800) := by
  simpa [← ofReal_sin, ← norm_eq_abs, ← norm_real] using Complex.sin_bound11 (x := x) (by simpa)

set_option linter.unusedSimpArgs false
namespace PP
open Vec3 Quat Mat3

/-- the three fixed matrices of `calcQ` (`P = φ^`, `T = τ^`) -/
noncomputable def calcQM1 (x : se3 ℝ) : Mat3 ℝ :=
  let T := Mat3.hat x.tau; let P := Mat3.hat x.phi
  Mat3.add (Mat3.add (P.mul T) (T.mul P)) ((P.mul T).mul P)
noncomputable def calcQM2 (x : se3 ℝ) : Mat3 ℝ :=
  let T := Mat3.hat x.tau; let P := Mat3.hat x.phi
  Mat3.sub (Mat3.add (P.mul (P.mul T)) ((T.mul P).mul P)) (Mat3.smul 3 ((P.mul T).mul P))
noncomputable def calcQM3 (x : se3 ℝ) : Mat3 ℝ :=
  let T := Mat3.hat x.tau; let P := Mat3.hat x.phi
  Mat3.add (((P.mul T).mul P).mul P) (P.mul ((P.mul T).mul P))
/-- `calcQ` with given coefficients: `T/2 + c₁M₁ + c₂M₂ + c₃M₃` -/
noncomputable def calcQWith (c : ℝ × ℝ × ℝ) (x : se3 ℝ) : Mat3 ℝ :=
  Mat3.add (Mat3.add (Mat3.add (Mat3.smul (1 / 2) (Mat3.hat x.tau)) (Mat3.smul c.1 (calcQM1 x))) (Mat3.smul c.2.1 (calcQM2 x)))
    (Mat3.smul c.2.2 (calcQM3 x))

/-- the three coefficients of `calcQ`: closed forms (used for `θ > 0.05`) and series (used for `θ ≤ 0.05`) -/
noncomputable def calcQClosed (th : ℝ) : ℝ × ℝ × ℝ :=
  ((th - Real.sin th) / (th * th * th), (th * th + 2 * Real.cos th - 2) / (2 * (th * th * (th * th))),
   (2 * th - 3 * Real.sin th + th * Real.cos th) / (2 * (th * th * (th * th)) * th))
noncomputable def calcQSeries (th : ℝ) : ℝ × ℝ × ℝ :=
  (1 / 6 - 1 / 120 * (th * th) + 1 / 5040 * (th * th * (th * th)), 1 / 24 - 1 / 720 * (th * th) + 1 / 40320 * (th * th * (th * th)),
   1 / 120 - 1 / 2520 * (th * th) + 1 / 120960 * (th * th * (th * th)))


theorem sin_rem (th : ℝ) (h0 : 0 < th) (h1 : th ≤ 1) :
    |Real.sin th - (th - th ^ 3 / 6 + th ^ 5 / 120 - th ^ 7 / 5040 + th ^ 9 / 362880)| ≤ th ^ 11 * (12 / 439084800) := by
  have := Real.sin_bound11 (x := th) (by rw [abs_of_pos h0]; exact h1)
  rwa [abs_of_pos h0] at this
theorem cos_rem (th : ℝ) (h0 : 0 < th) (h1 : th ≤ 1) :
    |Real.cos th - (1 - th ^ 2 / 2 + th ^ 4 / 24 - th ^ 6 / 720 + th ^ 8 / 40320)| ≤ th ^ 10 * (11 / 36288000) := by
  have := Real.cos_bound10 (x := th) (by rw [abs_of_pos h0]; exact h1)
  rwa [abs_of_pos h0] at this

theorem pow_le_of_le_one' (th : ℝ) (h0 : 0 < th) (h1 : th ≤ 1) (k : ℕ) : th ^ (6 + k) ≤ th ^ 6 :=
  pow_le_pow_of_le_one (le_of_lt h0) h1 (by omega)


end PP
