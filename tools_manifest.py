#!/usr/bin/env python3
"""Regenerates MANIFEST.json from manifest_src.json (per-property texts) — keeps the file valid at all times."""
import json, re, sys
from pathlib import Path
V = Path(__file__).resolve().parent


def n_theorems(pid):
    """number of theorems in the property file (same rule as harness.common.theorem_names)"""
    f = V / "lean" / "Proofs" / "Props" / f"{pid}.lean"
    if not f.exists():
        return None
    return sum(1 for line in f.read_text().splitlines()
               if re.match(r"^(?:@\[[^\]]*\]\s*)?(?:private\s+|protected\s+)?theorem\s+(\S+)", line))


src = json.loads((V / "manifest_src.json").read_text())
props = [json.loads(l) for l in (V / "properties.jsonl").read_text().splitlines() if l.strip()]
checks, na = [], []
for p in props:
    pid = p["id"]
    e = src["checks"].get(pid)
    if e and e.get("claimed"):
        checks.append({
            "property_id": pid,
            "quick_cmd": f"/venv/bin/python check.py --property {pid} --tier quick",
            "thorough_cmd": f"/venv/bin/python check.py --property {pid} --tier thorough",
            "evidence_file": f"evidence/{pid}.json",
            "replay_cmd_template": f"/venv/bin/python check.py --property {pid} --replay {{path}}",
            "engine": "lean-model+correspondence",
            "level_claimed": {"category": "proof", "text": re.sub(r"^\d+ theorems", f"{n_theorems(pid)} theorems", e["text"]) if n_theorems(pid) else e["text"], "design_ref": e.get("design_ref", f"DESIGN.md §5 {pid}")},
            "level_note": e["note"],
            "technique": e.get("technique", "Lean 4 theorems over a hand-written model + high-precision correspondence check against the real code"),
        })
    else:
        na.append({"property_id": pid, "reason": (e or {}).get("reason", "check under construction in this round; not yet claimed")})
m = {
    "version": 1,
    "setup_cmd": src["setup_cmd"],
    "hooks": src["hooks"],
    "engines": src["engines"],
    "checks": checks,
    "notes": src["notes"],
    "not_applicable": na,
}
for e in m["engines"]:
    e["serves_properties"] = [c["property_id"] for c in checks]
(V / "MANIFEST.json").write_text(json.dumps(m, indent=1) + "\n")
print("claimed", [c["property_id"] for c in checks], "not claimed", [x["property_id"] for x in na])
