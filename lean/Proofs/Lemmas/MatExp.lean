import Proofs.Lemmas.Quat
import Proofs.Lemmas.So3Exp
import Mathlib.Analysis.Normed.Algebra.MatrixExponential
import Mathlib.Analysis.SpecialFunctions.Trigonometric.Series
import Mathlib.Topology.Algebra.InfiniteSum.Module
import Mathlib.Tactic.Ring
import Mathlib.Tactic.Abel
import Mathlib.Tactic.FieldSimp
import Mathlib.Tactic.FinCases
import Mathlib.Tactic.NormNum
import Mathlib.Tactic.Linarith
import Mathlib.Tactic.Positivity
/-!
# Matrix exponential: Rodrigues-type closed forms (used by C01)

* `exp_eq_rod2_of_pow` : for a real square matrix `A` whose powers satisfy `A^(m+2) = -θ² A^m` from
  `m = 2` on (`θ ≠ 0`), `exp A = 1 + A + ((1-cos θ)/θ²) A² + ((θ - sin θ)/θ³) A³`.
  Proved from the power series of `NormedSpace.exp` and of `Real.sin`, `Real.cos`.
* `exp_eq_rod_of_pow` : the classical Rodrigues formula (`A³ = -θ² A`) as a corollary.
* `exp_of_sq_zero` : `A² = 0 → exp A = 1 + A`.
-/
open Matrix NormedSpace

namespace PP.MatExp
noncomputable section
variable {n : Type} [Fintype n] [DecidableEq n]

/-- even part of the exponential series under `A^(2k+2) = (-θ²)^k A²` -/
theorem hasSum_even (A : Matrix n n ℝ) (th : ℝ) (hth0 : th ≠ 0)
    (hpe : ∀ k : ℕ, A ^ (2*k+2) = ((-(th*th))^k) • (A ^ 2)) :
    HasSum (fun k : ℕ => ((Nat.factorial (2*k) : ℝ)⁻¹) • A ^ (2*k))
      (1 + ((1 - Real.cos th) / (th*th)) • (A ^ 2)) := by
  have h1 := (Real.hasSum_cos th).smul_const ((-(1/(th*th))) • (A^2))
  have h0 : HasSum (fun k : ℕ => if k = 0 then (1 + (1/(th*th)) • (A^2)) else (0 : Matrix n n ℝ))
      (1 + (1/(th*th)) • (A^2)) := hasSum_ite_eq 0 _
  have h2 := h1.add h0
  convert h2 using 1
  · funext k
    rcases k with _ | k
    · simp [smul_smul]
    · have : 2*(k+1) = 2*k+2 := by ring
      rw [this, hpe]
      simp only [Nat.succ_ne_zero, if_false, add_zero, smul_smul]
      congr 1
      field_simp
      ring
  · rw [smul_smul]
    simp only [sub_div, sub_smul, one_div]
    have : (Real.cos th * -(th * th)⁻¹) = -(Real.cos th / (th * th)) := by rw [div_eq_mul_inv]; ring
    rw [this, neg_smul]
    abel

/-- odd part of the exponential series under `A^(2k+3) = (-θ²)^k A³` -/
theorem hasSum_odd (A : Matrix n n ℝ) (th : ℝ) (hth0 : th ≠ 0)
    (hpo : ∀ k : ℕ, A ^ (2*k+3) = ((-(th*th))^k) • (A ^ 3)) :
    HasSum (fun k : ℕ => ((Nat.factorial (2*k+1) : ℝ)⁻¹) • A ^ (2*k+1))
      (A + ((th - Real.sin th) / (th*th*th)) • (A ^ 3)) := by
  have h1 := (Real.hasSum_sin th).smul_const ((-(1/(th*th*th))) • (A^3))
  have h0 : HasSum (fun k : ℕ => if k = 0 then (A + (1/(th*th)) • (A^3)) else (0 : Matrix n n ℝ))
      (A + (1/(th*th)) • (A^3)) := hasSum_ite_eq 0 _
  have h2 := h1.add h0
  convert h2 using 1
  · funext k
    rcases k with _ | k
    · simp only [Nat.mul_zero, Nat.zero_add, Nat.factorial_one, Nat.cast_one, inv_one, pow_one, one_smul,
        pow_zero, one_mul, div_one, if_true, smul_smul]
      have e : th * -(1 / (th * th * th)) = -(1 / (th * th)) := by field_simp
      rw [e, neg_smul]
      abel
    · have : 2*(k+1)+1 = 2*k+3 := by ring
      rw [this, hpo]
      simp only [Nat.succ_ne_zero, if_false, add_zero, smul_smul]
      congr 1
      field_simp
      ring
  · rw [smul_smul]
    simp only [sub_div, sub_smul, one_div]
    have e1 : (Real.sin th * -(th * th * th)⁻¹) = -(Real.sin th / (th * th * th)) := by
      rw [div_eq_mul_inv]; ring
    have e2 : th / (th * th * th) = (th * th)⁻¹ := by field_simp
    rw [e1, e2, neg_smul]
    abel

theorem exp_eq_rod2_of_pow (A : Matrix n n ℝ) (th : ℝ) (hth0 : th ≠ 0)
    (hpo : ∀ k : ℕ, A ^ (2*k+3) = ((-(th*th))^k) • (A ^ 3))
    (hpe : ∀ k : ℕ, A ^ (2*k+2) = ((-(th*th))^k) • (A ^ 2)) :
    NormedSpace.exp A =
      1 + A + ((1 - Real.cos th) / (th*th)) • (A ^ 2) + ((th - Real.sin th) / (th*th*th)) • (A ^ 3) := by
  rw [NormedSpace.exp_eq_tsum ℝ]
  have H := (HasSum.even_add_odd (f := fun m : ℕ => ((Nat.factorial m : ℝ)⁻¹) • A ^ m)
    (hasSum_even A th hth0 hpe) (hasSum_odd A th hth0 hpo)).tsum_eq
  show ∑' (m : ℕ), ((Nat.factorial m : ℝ)⁻¹) • A ^ m = _
  rw [H]
  abel

/-- powers from the single relation `A⁴ = -θ² A²` -/
theorem pow_even_of_four (A : Matrix n n ℝ) (t : ℝ) (h4 : A ^ 4 = (-t) • A ^ 2) (k : ℕ) :
    A ^ (2*k+2) = ((-t)^k) • (A ^ 2) := by
  induction k with
  | zero => simp
  | succ k ih =>
    have e : 2*(k+1)+2 = (2*k+2) + 2 := by ring
    rw [e, pow_add, ih, smul_mul_assoc, ← pow_add, h4, smul_smul, ← pow_succ]

theorem pow_odd_of_four (A : Matrix n n ℝ) (t : ℝ) (h4 : A ^ 4 = (-t) • A ^ 2) (k : ℕ) :
    A ^ (2*k+3) = ((-t)^k) • (A ^ 3) := by
  have e : 2*k+3 = (2*k+2) + 1 := by ring
  rw [e, pow_succ, pow_even_of_four A t h4, smul_mul_assoc, ← pow_succ]

/-- generalised Rodrigues formula from `A⁴ = -θ² A²` -/
theorem exp_eq_rod2 (A : Matrix n n ℝ) (th : ℝ) (hth0 : th ≠ 0) (h4 : A ^ 4 = (-(th*th)) • A ^ 2) :
    NormedSpace.exp A =
      1 + A + ((1 - Real.cos th) / (th*th)) • (A ^ 2) + ((th - Real.sin th) / (th*th*th)) • (A ^ 3) :=
  exp_eq_rod2_of_pow A th hth0 (pow_odd_of_four A _ h4) (pow_even_of_four A _ h4)

/-- classical Rodrigues formula from `A³ = -θ² A` -/
theorem exp_eq_rod (A : Matrix n n ℝ) (th : ℝ) (hth0 : th ≠ 0) (h3 : A ^ 3 = (-(th*th)) • A) :
    NormedSpace.exp A = 1 + (Real.sin th / th) • A + ((1 - Real.cos th) / (th*th)) • (A ^ 2) := by
  have h4 : A ^ 4 = (-(th*th)) • A ^ 2 := by
    have : A ^ 4 = A ^ 3 * A := by rw [← pow_succ]
    rw [this, h3, smul_mul_assoc, pow_two]
  rw [exp_eq_rod2 A th hth0 h4, h3, smul_smul]
  have e : (th - Real.sin th) / (th * th * th) * -(th * th) = Real.sin th / th - 1 := by field_simp; ring
  rw [e, sub_smul, one_smul]
  abel

/-- a matrix with `A² = 0` has `exp A = 1 + A` -/
theorem exp_of_sq_zero (A : Matrix n n ℝ) (h2 : A ^ 2 = 0) : NormedSpace.exp A = 1 + A := by
  rw [NormedSpace.exp_eq_tsum ℝ]
  show ∑' (m : ℕ), ((Nat.factorial m : ℝ)⁻¹) • A ^ m = _
  have hz : ∀ m ∉ (Finset.range 2), ((Nat.factorial m : ℝ)⁻¹) • A ^ m = 0 := by
    intro m hm
    have : 2 ≤ m := by simp at hm; omega
    obtain ⟨j, rfl⟩ := Nat.exists_eq_add_of_le this
    rw [pow_add, h2, zero_mul, smul_zero]
  rw [tsum_eq_sum hz]
  simp [Finset.sum_range_succ]

end
end PP.MatExp
