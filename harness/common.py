"""Shared machinery of the correspondence checks (see DESIGN.md §2.3).

Everything here is infrastructure: PRNG discipline, the wire format to the Lean driver, the Lean
build/audit step, evidence and replay writing, known-findings matching, the purity monitor.
Property specific logic lives in harness/cNN.py.
"""
from __future__ import annotations

import hashlib
import json
import math
import os
import random
import re
import subprocess
import sys
import time
from fractions import Fraction
from pathlib import Path

VERIF = Path(__file__).resolve().parent.parent
LEAN = VERIF / "lean"
REPO = Path(os.environ.get("PYPOSE_REPO", "/repo"))
BIN_DIR = LEAN / ".lake" / "build" / "bin"


def driver_bin(prop: str) -> Path:
    return BIN_DIR / f"drv_{prop.lower()}"
STD_AXIOMS = {"propext", "Classical.choice", "Quot.sound"}
FORBIDDEN = re.compile(r"\bsorry\b|\badmit\b|^axiom |native_decide|bv_decide|implemented_by|\bunsafe |maxHeartbeats 0")

EXIT_OK, EXIT_VIOLATION, EXIT_INFRA = 0, 1, 2


class InfraError(Exception):
    """tool crash / time-out / stand-in contract failure: exit 2, never a verdict"""


# --------------------------------------------------------------------------- wire format

def to_wire(x) -> str:
    """exact `m:e` token of a python float / int / Fraction with power-of-two denominator"""
    if isinstance(x, int):
        return f"{x}:0"
    if isinstance(x, Fraction):
        d = x.denominator
        assert d & (d - 1) == 0, "non-dyadic fraction"
        return f"{x.numerator}:{-(d.bit_length() - 1)}"
    x = float(x)
    if x == 0.0:
        return "0:0"
    if math.isnan(x) or math.isinf(x):
        raise ValueError("non-finite on the wire")
    m, e = math.frexp(x)
    return f"{int(m * (1 << 53))}:{e - 53}"


def from_wire(tok: str) -> Fraction:
    m, e = tok.split(":")
    m, e = int(m), int(e)
    if e < -6000:      # astronomically small (e.g. the model's exp of a wild step): exact value irrelevant, avoid
        return Fraction(0)          # allocating a 2^|e|-digit denominator
    if e > 6000:
        e = 6000
    return Fraction(m) * (Fraction(2) ** e)


def wire_list(xs) -> str:
    return " ".join(to_wire(x) for x in xs)


def fr(x) -> Fraction:
    return x if isinstance(x, Fraction) else Fraction(x)


class Driver:
    """Runs the Lean model's executable definitions (posedriver) on a batch of request lines."""

    def __init__(self, prop: str = "C12"):
        self.bin = driver_bin(prop)
        self.calls = 0
        self.lines = 0

    def run(self, lines: list[str], timeout: int = 3600) -> list[str]:
        if not lines:
            return []
        if not self.bin.exists():
            raise InfraError(f"driver binary missing: {self.bin} (run setup_cmd)")
        self.calls += 1
        self.lines += len(lines)
        nproc = min(16, max(1, len(lines) // 200))
        if nproc == 1:
            return self._run1(lines, timeout)
        # fan out over processes, keep order
        chunks = [lines[i::nproc] for i in range(nproc)]
        procs = []
        for ch in chunks:
            p = subprocess.Popen([str(self.bin)], stdin=subprocess.PIPE, stdout=subprocess.PIPE,
                                 stderr=subprocess.PIPE, text=True)
            procs.append((p, ch))
        import threading
        outs = [None] * nproc

        def work(i, p, ch):
            o, e = p.communicate("\n".join(ch) + "\n", timeout=timeout)
            outs[i] = (p.returncode, o, e)
        ths = [threading.Thread(target=work, args=(i, p, ch)) for i, (p, ch) in enumerate(procs)]
        [t.start() for t in ths]
        [t.join() for t in ths]
        res = [None] * len(lines)
        for i, (rc, o, e) in enumerate(outs):
            ol = o.split("\n")
            if ol and ol[-1] == "":
                ol.pop()
            if rc != 0 or len(ol) != len(chunks[i]):
                raise InfraError(f"driver failed rc={rc} got {len(ol)} of {len(chunks[i])}: {e[-400:]}")
            res[i::nproc] = ol
        return res

    def _run1(self, lines, timeout):
        p = subprocess.run([str(self.bin)], input="\n".join(lines) + "\n", capture_output=True,
                           text=True, timeout=timeout)
        out = p.stdout.split("\n")
        if out and out[-1] == "":
            out.pop()
        if p.returncode != 0 or len(out) != len(lines):
            raise InfraError(f"driver failed rc={p.returncode} got {len(out)} of {len(lines)}: {p.stderr[-400:]}")
        return out


def parse_reply(rep: str):
    """-> ('ok', [tokens]) | ('err', kind)"""
    parts = rep.split(" ")
    if parts[0] == "ok":
        return "ok", parts[1:]
    return "err", " ".join(parts[1:])


def reply_nums(rep: str) -> list[Fraction]:
    st, toks = parse_reply(rep)
    if st != "ok":
        raise InfraError(f"model error reply: {rep}")
    return [from_wire(t) for t in toks]


# --------------------------------------------------------------------------- Lean build + audit

def lake_build(targets: list[str]) -> tuple[bool, str]:
    """lake build <targets>; returns (ok, log). Lake serialises concurrent builds itself."""
    t0 = time.time()
    p = subprocess.run(["lake", "build", *targets], cwd=LEAN, capture_output=True, text=True, timeout=3000)
    return p.returncode == 0, p.stdout + p.stderr + f"\n[{time.time() - t0:.1f}s]"


def theorem_names(props_file: Path) -> list[str]:
    """names of theorems (obligations) declared in a Proofs/Props file, fully qualified"""
    names, ns = [], []
    for line in props_file.read_text().splitlines():
        m = re.match(r"^namespace\s+(\S+)", line)
        if m:
            ns.append(m.group(1))
            continue
        m = re.match(r"^end\s+(\S+)", line)
        if m and ns and ns[-1] == m.group(1):
            ns.pop()
            continue
        m = re.match(r"^(?:@\[[^\]]*\]\s*)?(?:private\s+|protected\s+)?theorem\s+(\S+)", line)
        if m:
            names.append(".".join(ns + [m.group(1)]))
    return names


def grep_forbidden(files: list[Path]) -> list[str]:
    hits = []
    for f in files:
        in_block = 0
        for i, raw in enumerate(f.read_text().splitlines(), 1):
            line = raw
            # strip block comments (coarse but conservative) and line comments
            out = ""
            j = 0
            while j < len(line):
                if line.startswith("/-", j):
                    in_block += 1
                    j += 2
                elif line.startswith("-/", j) and in_block:
                    in_block -= 1
                    j += 2
                elif in_block:
                    j += 1
                elif line.startswith("--", j):
                    break
                else:
                    out += line[j]
                    j += 1
            if FORBIDDEN.search(out):
                hits.append(f"{f.relative_to(VERIF)}:{i}: {raw.strip()[:120]}")
    return hits


def lean_sources_for(prop: str) -> list[Path]:
    """the local import closure of Proofs.Props.<prop> and Drv.<prop> (files of other properties that are not
    imported cannot influence this property's obligations, so they are not grepped)"""
    roots = [LEAN / "Proofs" / "Props" / f"{prop}.lean", LEAN / "Drv" / f"{prop}.lean"]
    seen: dict[Path, None] = {}
    todo = [r for r in roots if r.exists()]
    while todo:
        f = todo.pop()
        if f in seen:
            continue
        seen[f] = None
        for line in f.read_text().splitlines():
            m = re.match(r"^\s*(?:public\s+)?import\s+(\S+)", line)
            if m and m.group(1).split(".")[0] in ("Pose", "Proofs", "Drv"):
                g = LEAN / (m.group(1).replace(".", "/") + ".lean")
                if g.exists():
                    todo.append(g)
    return list(seen)


def audit(prop: str, thorough: bool = False) -> dict:
    """Build Proofs.Props.<prop>, print axioms of every theorem in it, grep for forbidden constructs.
    Returns dict(ok, obligations, discharged, axioms, failures, checker_cmd)."""
    props = LEAN / "Proofs" / "Props" / f"{prop}.lean"
    res = {"ok": False, "obligations": 0, "discharged": 0, "axioms": {}, "failures": [],
           "checker_cmd": f"cd lean && lake build Proofs.Props.{prop} drv_{prop.lower()} && lake env lean Audit/{prop}.lean",
           "theorems": []}
    if not props.exists():
        res["failures"].append(f"missing {props}")
        return res
    names = theorem_names(props)
    res["theorems"] = names
    res["obligations"] = len(names)
    ok, log = lake_build([f"Proofs.Props.{prop}", f"drv_{prop.lower()}"])
    res["build_log_tail"] = log[-1500:]
    if not ok:
        bad = re.findall(r"error: (\S+\.lean:\d+:\d+: .*)", log)
        res["failures"].append("lake build failed: " + "; ".join(bad[:5]))
        # which theorems still check is unknown: none discharged
        return res
    auditf = LEAN / "Audit" / f"{prop}.lean"
    body = f"import Proofs.Props.{prop}\n" + "".join(f"#print axioms {n}\n" for n in names)
    if not auditf.exists() or auditf.read_text() != body:
        auditf.parent.mkdir(exist_ok=True)
        auditf.write_text(body)
    p = subprocess.run(["lake", "env", "lean", str(auditf.relative_to(LEAN))], cwd=LEAN, capture_output=True,
                       text=True, timeout=1800)
    out = p.stdout + p.stderr
    if p.returncode != 0:
        res["failures"].append("audit failed: " + out[-600:])
        return res
    # parse "'name' depends on axioms: [a, b]" / "'name' does not depend on any axioms"
    text = re.sub(r"\s+", " ", out)
    for n in names:
        m = re.search(r"'" + re.escape(n) + r"' (does not depend on any axioms|depends on axioms: \[([^\]]*)\])", text)
        if not m:
            res["failures"].append(f"no axiom report for {n}")
            continue
        axs = set() if m.group(2) is None else {a.strip() for a in m.group(2).split(",") if a.strip()}
        res["axioms"][n] = sorted(axs)
        if axs <= STD_AXIOMS:
            res["discharged"] += 1
        else:
            res["failures"].append(f"{n} depends on non-standard axioms {sorted(axs - STD_AXIOMS)}")
    hits = grep_forbidden(lean_sources_for(prop))
    if hits:
        res["failures"].append("forbidden constructs: " + "; ".join(hits[:5]))
    if thorough:
        p = subprocess.run(["lake", "env", "leanchecker", f"Proofs.Props.{prop}"], cwd=LEAN, capture_output=True,
                           text=True, timeout=3000)
        res["leanchecker"] = "ok" if p.returncode == 0 else (p.stdout + p.stderr)[-400:]
        if p.returncode != 0:
            if "does not exist" in res["leanchecker"] or "object file" in res["leanchecker"]:
                # another build is rewriting a shared .olean right now: infrastructure, not a verdict
                raise InfraError("leanchecker raced with a concurrent build: " + res["leanchecker"][-200:])
            res["failures"].append("leanchecker failed: " + res["leanchecker"])
    res["ok"] = (not res["failures"]) and res["discharged"] == res["obligations"] and res["obligations"] > 0
    return res


# --------------------------------------------------------------------------- known findings

def load_known() -> list[dict]:
    f = VERIF / "known_findings.json"
    if not f.exists():
        return []
    return [e for e in json.loads(f.read_text()).get("findings", [])]


# --------------------------------------------------------------------------- context

class Ctx:
    """State of one check run. Property modules call:
      ctx.note_case(sig, nontrivial)         coverage accounting
      ctx.sample(obj)                        keep a few real cases for the evidence file
      ctx.disagree(stream, case, detail)     model and implementation differ beyond tolerance
      ctx.fail(case, what)                   the property itself fails on the real code at `case`
      ctx.count(key)                         input-distribution histogram
    """

    def __init__(self, prop: str, tier: str, seed: int):
        self.prop, self.tier, self.seed = prop, tier, seed
        self.rng = random.Random(seed * 1000003 + int(prop[1:]))
        self.driver = Driver(prop)
        self.evaluations = 0
        self.sigs: set = set()
        self.samples: list = []
        self.hist: dict = {}
        self.disagreements: list = []
        self.failures: list = []
        self.known_hits: list = []
        self.notes: list = []
        self.known = [k for k in load_known() if k.get("property") == prop and k.get("status") == "open"]
        self.t0 = time.time()
        self.quick = tier == "quick"

    # coverage
    def note_case(self, sig, nontrivial: bool = True):
        self.evaluations += 1
        if nontrivial:
            self.sigs.add(sig if isinstance(sig, (str, int, tuple)) else json.dumps(sig, sort_keys=True, default=str))

    def count(self, key: str, n: int = 1):
        self.hist[key] = self.hist.get(key, 0) + n

    def sample(self, obj, cap: int = 6):
        if len(self.samples) < cap:
            self.samples.append(obj)

    # verdict pieces
    def disagree(self, stream: str, case: dict, detail: str):
        self.disagreements.append({"stream": stream, "case": case, "detail": detail})

    def fail(self, case: dict, what: str, known_matcher=None):
        """a concrete input on which the property's own statement fails on the real code"""
        for kf in self.known:
            if known_matcher is not None and known_matcher(kf, case):
                self.known_hits.append({"finding": kf["id"], "case": case, "what": what})
                return
        self.failures.append({"case": case, "what": what})

    def pick(self, n_quick: int, n_thorough: int) -> int:
        return n_quick if self.quick else n_thorough


def jsonable(o):
    if isinstance(o, Fraction):
        return float(o)
    if isinstance(o, (set, tuple)):
        return list(o)
    try:
        import torch
        if isinstance(o, torch.Tensor):
            return o.detach().cpu().tolist()
        if isinstance(o, torch.Size):
            return list(o)
        if isinstance(o, torch.dtype):
            return str(o)
    except Exception:
        pass
    return str(o)


def write_json(path: Path, obj):
    path.parent.mkdir(parents=True, exist_ok=True)
    tmp = path.with_suffix(path.suffix + f".tmp{os.getpid()}")
    tmp.write_text(json.dumps(obj, indent=1, default=jsonable))
    os.replace(tmp, path)


# --------------------------------------------------------------------------- purity monitor

class PurityMonitor:
    """Snapshots tensor arguments of an implementation call and compares bit-for-bit afterwards."""

    def __init__(self):
        self.calls = 0
        self.mutations: list = []

    @staticmethod
    def _tensors(obj, path="arg"):
        import torch
        if isinstance(obj, torch.Tensor):
            yield path, obj
        elif isinstance(obj, (list, tuple)):
            for i, o in enumerate(obj):
                yield from PurityMonitor._tensors(o, f"{path}[{i}]")
        elif isinstance(obj, dict):
            for k2, o in obj.items():
                yield from PurityMonitor._tensors(o, f"{path}[{k2!r}]")

    def call(self, name, fn, *args, **kwargs):
        import torch
        snaps = []
        for pth, t in self._tensors((args, kwargs)):
            base = torch.Tensor.as_subclass(t.detach(), torch.Tensor)
            snaps.append((pth, t, base.clone()))
        self.calls += 1
        try:
            return fn(*args, **kwargs)
        finally:
            for pth, t, before in snaps:
                after = torch.Tensor.as_subclass(t.detach(), torch.Tensor)
                same = after.shape == before.shape and bool(
                    torch.equal(torch.nan_to_num(after, nan=12345.0), torch.nan_to_num(before, nan=12345.0)))
                if not same:
                    self.mutations.append({"function": name, "argument": pth,
                                           "before": before.flatten()[:8].tolist(),
                                           "after": after.flatten()[:8].tolist()})


# --------------------------------------------------------------------------- numeric helpers

EPS = {"float64": 2.0 ** -52, "float32": 2.0 ** -23}


def ladder(dtype_eps: float) -> list[float]:
    """magnitude ladder of DESIGN §4"""
    e, se = dtype_eps, math.sqrt(dtype_eps)
    return [0.0, 1e-30, 1e-20, e / 2, e * (1 - 2 ** -10), e, e * (1 + 2 ** -10), 2 * e, 1e-12, 1e-9,
            se * (1 - 2 ** -10), se, se * (1 + 2 ** -10), 1e-6, 1e-4, 1e-3, 1e-2, 0.1, 0.5, 1.0, 2.0, 3.0,
            math.pi - 1e-3, math.pi - 1e-6, math.pi - 1e-9, math.pi - 1e-12, math.pi]


def ladder_big() -> list[float]:
    return [math.pi + 1e-9, math.pi + 1e-6, math.pi + 1e-3, 4.0, 2 * math.pi - 1e-6, 2 * math.pi + 1e-6, 7.0,
            3 * math.pi - 1e-3, 10.0]


def rand_dir(rng: random.Random, n: int = 3) -> list[float]:
    """random unit-ish direction, sometimes axis aligned, sometimes with tiny components"""
    c = rng.random()
    if c < 0.15:
        v = [0.0] * n
        v[rng.randrange(n)] = rng.choice([-1.0, 1.0])
        return v
    v = [rng.gauss(0, 1) for _ in range(n)]
    if c < 0.3:
        v[rng.randrange(n)] *= 1e-9
    nv = math.sqrt(sum(x * x for x in v)) or 1.0
    return [x / nv for x in v]


def sig_mag(x: float) -> int:
    """quantised magnitude for case signatures"""
    x = abs(x)
    if x == 0:
        return -999
    return int(math.floor(math.log10(x) * 2))
