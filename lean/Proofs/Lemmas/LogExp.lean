import Proofs.Lemmas.Quat
import Proofs.Lemmas.So3Exp
import Pose.Model.LogExp
import Mathlib.Analysis.SpecialFunctions.Trigonometric.Arctan
import Mathlib.Analysis.SpecialFunctions.Trigonometric.Bounds
import Mathlib.Analysis.SpecialFunctions.Exp
import Mathlib.Analysis.Real.Pi.Bounds
import Mathlib.Analysis.SpecialFunctions.Trigonometric.ArctanDeriv
import Mathlib.Analysis.Calculus.Deriv.MeanValue
import Mathlib.Tactic.Positivity
import Mathlib.Tactic.NormNum
import Mathlib.Tactic.Linarith
/-!
# Lemmas for C02 (Log is the principal inverse of Exp)

Scalar facts about `arctan`, branch unfoldings of `SO3Log` / `so3Exp`, the polynomial calculus of
`polyK a b c x = a·1 + b·K + c·K²` (`K = hat x`, `K³ = −‖x‖²K`), `Mat3.inv`, the determinant of `rxso3Ws`.
-/
namespace PP
open Vec3 Quat Mat3

/-! ## small vector facts -/

theorem Vec3.normSq_neg (x : Vec3 ℝ) : x.neg.normSq = x.normSq := by lie_unfold; ring
theorem Vec3.norm_neg (x : Vec3 ℝ) : x.neg.norm = x.norm := by unfold Vec3.norm; rw [Vec3.normSq_neg]
theorem Vec3.norm_smul (c : ℝ) (x : Vec3 ℝ) : (x.smul c).norm = |c| * x.norm := by
  unfold Vec3.norm
  rw [show Scalar.sqrt (x.smul c).normSq = Real.sqrt (x.smul c).normSq from rfl, Vec3.normSq_smul,
    Real.sqrt_mul (mul_self_nonneg c), Real.sqrt_mul_self_eq_abs]
  rfl
theorem Vec3.smul_smul (a b : ℝ) (x : Vec3 ℝ) : (x.smul a).smul b = x.smul (a * b) := by
  ext <;> lie_unfold <;> ring
theorem Vec3.smul_one (x : Vec3 ℝ) : x.smul 1 = x := by ext <;> lie_unfold <;> ring
theorem Vec3.smul_neg_one (x : Vec3 ℝ) : x.smul (-1) = x.neg := by ext <;> lie_unfold <;> ring
theorem Vec3.neg_smul (c : ℝ) (x : Vec3 ℝ) : x.neg.smul c = (x.smul c).neg := by
  ext <;> lie_unfold <;> ring
theorem Vec3.neg_smul' (c : ℝ) (x : Vec3 ℝ) : x.neg.smul (-c) = x.smul c := by
  ext <;> lie_unfold <;> ring
theorem Vec3.neg_neg (x : Vec3 ℝ) : x.neg.neg = x := by ext <;> lie_unfold <;> ring
theorem Vec3.norm_eq_zero {x : Vec3 ℝ} (h : x.norm = 0) : x = Vec3.zero := by
  have h2 : x.normSq = 0 := by rw [← Vec3.norm_sq, h]; ring
  unfold Vec3.normSq at h2
  have hx : x.x = 0 := by nlinarith [mul_self_nonneg x.x, mul_self_nonneg x.y, mul_self_nonneg x.z]
  have hy : x.y = 0 := by nlinarith [mul_self_nonneg x.x, mul_self_nonneg x.y, mul_self_nonneg x.z]
  have hz : x.z = 0 := by nlinarith [mul_self_nonneg x.x, mul_self_nonneg x.y, mul_self_nonneg x.z]
  ext <;> simp [Vec3.zero, hx, hy, hz]

theorem Quat.vec_neg (p : Quat ℝ) : p.neg.vec = p.vec.neg := by ext <;> lie_unfold
theorem Quat.vec_conj (p : Quat ℝ) : p.conj.vec = p.vec.neg := by ext <;> lie_unfold
theorem Quat.w_neg (p : Quat ℝ) : p.neg.w = -p.w := rfl
theorem Quat.w_conj (p : Quat ℝ) : p.conj.w = p.w := rfl
theorem Quat.normSq_eq (p : Quat ℝ) : p.normSq = p.vec.normSq + p.w * p.w := by lie_unfold
theorem Quat.normSq_neg (p : Quat ℝ) : p.neg.normSq = p.normSq := by lie_unfold; ring

theorem spm_real (w : ℝ) : spm w = if w < 0 then -1 else 1 := by
  unfold spm; simp only [lt_real, k_real, Nat.cast_zero, Nat.cast_one, decide_eq_true_eq]
theorem spm_neg {w : ℝ} (h : w ≠ 0) : spm (-w) = -spm w := by
  rw [spm_real, spm_real]
  rcases lt_or_gt_of_ne h with h' | h'
  · have : ¬ (-w < 0) := by linarith
    simp [h', this]
  · have h1 : -w < 0 := by linarith
    have h2 : ¬ (w < 0) := by linarith
    simp [h1, h2]
theorem spm_sq (w : ℝ) : spm w * spm w = 1 := by
  rw [spm_real]; split <;> ring
theorem spm_abs (w : ℝ) : |spm w| = 1 := by
  rw [spm_real]; split <;> simp

/-! ## arctan facts -/

/-- `√(1 + (v/w)²) = 1/|w|` when `v² + w² = 1` -/
theorem sqrt_one_add_div_sq {v w : ℝ} (hw : w ≠ 0) (h : v * v + w * w = 1) :
    Real.sqrt (1 + (v / w) ^ 2) = 1 / |w| := by
  have e : 1 + (v / w) ^ 2 = (1 / |w|) ^ 2 := by
    rw [div_pow, div_pow, sq_abs]; field_simp; linarith
  rw [e, Real.sqrt_sq (by positivity)]

theorem cos_arctan_div {v w : ℝ} (hw : w ≠ 0) (h : v * v + w * w = 1) :
    Real.cos (Real.arctan (v / w)) = |w| := by
  rw [Real.cos_arctan, sqrt_one_add_div_sq hw h]; field_simp

theorem sin_arctan_div {v w : ℝ} (hw : w ≠ 0) (h : v * v + w * w = 1) :
    Real.sin (Real.arctan (v / w)) = v * |w| / w := by
  rw [Real.sin_arctan, sqrt_one_add_div_sq hw h]; field_simp

/-- `y ≤ arctan (2y)` on `[0, 1/2]` (from `tan y ≤ 2y` there) -/
theorem le_arctan_two_mul {y : ℝ} (h0 : 0 ≤ y) (h1 : y ≤ 1 / 2) : y ≤ Real.arctan (2 * y) := by
  have hpi : (2 : ℝ) ≤ Real.pi := Real.two_le_pi
  have hy2 : y < Real.pi / 2 := by linarith
  have hcos : 7 / 8 ≤ Real.cos y := by
    have := Real.one_sub_sq_div_two_le_cos (x := y)
    nlinarith
  have hcpos : 0 < Real.cos y := by linarith
  have hsin : Real.sin y ≤ y := Real.sin_le h0
  have htan : Real.tan y ≤ 2 * y := by
    rw [Real.tan_eq_sin_div_cos, div_le_iff₀ hcpos]; nlinarith
  calc y = Real.arctan (Real.tan y) := (Real.arctan_tan (by linarith) hy2).symm
    _ ≤ Real.arctan (2 * y) := Real.arctan_le_arctan_iff.mpr htan

/-- the angle recovered by regime 1 of `SO3Log` is above the threshold of `so3Exp` -/
theorem eps_lt_two_arctan {eps t : ℝ} (h0 : 0 ≤ eps) (h1 : eps ≤ 1) (ht : eps < t) :
    eps < 2 * Real.arctan t := by
  have h := le_arctan_two_mul (y := eps / 2) (by linarith) (by linarith)
  have e : 2 * (eps / 2) = eps := by ring
  rw [e] at h
  have : Real.arctan eps < Real.arctan t := Real.arctan_lt_arctan_iff.mpr ht
  linarith

theorem abs_arctan_div (v w : ℝ) (hv : 0 ≤ v) : |Real.arctan (v / w)| = Real.arctan (v / |w|) := by
  rcases le_or_gt 0 w with h | h
  · rw [abs_of_nonneg h, abs_of_nonneg]; exact Real.arctan_nonneg.mpr (div_nonneg hv h)
  · rw [abs_of_neg h, div_neg, Real.arctan_neg, abs_of_nonpos]
    exact Real.arctan_le_zero.mpr (div_nonpos_of_nonneg_of_nonpos hv (le_of_lt h))

/-! ## branch unfoldings -/

theorem so3Exp_closed (eps : ℝ) (x : Vec3 ℝ) (h : eps < x.norm) :
    so3Exp eps x = Quat.mk' (x.smul (Real.sin (x.norm / 2) / x.norm)) (Real.cos (x.norm / 2)) := by
  unfold so3Exp
  simp only [lt_real, h, decide_true, if_true, sin_real, cos_real, q_real, Nat.cast_one, Nat.cast_ofNat]
  rw [show (1 : ℝ) / 2 * x.norm = x.norm / 2 by ring]

theorem so3Exp_taylor (eps : ℝ) (x : Vec3 ℝ) (h : ¬ eps < x.norm) :
    so3Exp eps x = Quat.mk' (x.smul (1 / 2 - 1 / 48 * x.normSq + 1 / 3840 * (x.normSq * x.normSq)))
      (1 - 1 / 8 * x.normSq + 1 / 384 * (x.normSq * x.normSq)) := by
  unfold so3Exp
  simp only [lt_real, h, decide_false, q_real, k_real, Nat.cast_one, Nat.cast_ofNat, Bool.false_eq_true,
    if_false, Vec3.norm_sq]

theorem so3LogFactor_r1 (eps vn w : ℝ) (h1 : eps < vn) (h2 : eps < |w|) :
    so3LogFactor eps vn w = 2 * Real.arctan (vn / w) / vn := by
  unfold so3LogFactor
  simp only [lt_real, h1, sabs_real, h2, decide_true, if_true, k_real, atan_real, Nat.cast_ofNat]
theorem so3LogFactor_r2 (eps vn w : ℝ) (h1 : eps < vn) (h2 : ¬ eps < |w|) :
    so3LogFactor eps vn w = spm w * Real.pi / vn := by
  unfold so3LogFactor
  simp only [lt_real, h1, sabs_real, h2, decide_true, decide_false, if_true, pi_real, Bool.false_eq_true,
    if_false]
theorem so3LogFactor_r3 (eps vn w : ℝ) (h1 : ¬ eps < vn) :
    so3LogFactor eps vn w = 2 * (1 / w - vn * vn / (3 * (w * w * w))) := by
  unfold so3LogFactor
  simp only [lt_real, h1, decide_false, Bool.false_eq_true, if_false, k_real, Nat.cast_ofNat, Nat.cast_one]

/-! ## SO3 : `Log` branch-wise, `Exp ∘ Log` -/

theorem SO3Log_r1 (eps : ℝ) (q : Quat ℝ) (h1 : eps < q.vec.norm) (h2 : eps < |q.w|) :
    SO3Log eps q = q.vec.smul (2 * Real.arctan (q.vec.norm / q.w) / q.vec.norm) := by
  unfold SO3Log; rw [so3LogFactor_r1 _ _ _ h1 h2]
theorem SO3Log_r2 (eps : ℝ) (q : Quat ℝ) (h1 : eps < q.vec.norm) (h2 : ¬ eps < |q.w|) :
    SO3Log eps q = q.vec.smul (spm q.w * Real.pi / q.vec.norm) := by
  unfold SO3Log; rw [so3LogFactor_r2 _ _ _ h1 h2]
theorem SO3Log_r3 (eps : ℝ) (q : Quat ℝ) (h1 : ¬ eps < q.vec.norm) :
    SO3Log eps q = q.vec.smul (2 * (1 / q.w - q.vec.norm * q.vec.norm / (3 * (q.w * q.w * q.w)))) := by
  unfold SO3Log; rw [so3LogFactor_r3 _ _ _ h1]

theorem arctan_div_eq (v w : ℝ) (hw : w ≠ 0) :
    Real.arctan (v / w) = |w| / w * Real.arctan (v / |w|) := by
  rcases lt_or_gt_of_ne hw with h | h
  · rw [abs_of_neg h, div_neg, Real.arctan_neg, neg_div, div_self hw]; ring
  · rw [abs_of_pos h, div_self hw]; ring

theorem unit_parts (q : Quat ℝ) (hq : q.normSq = 1) : q.vec.norm * q.vec.norm + q.w * q.w = 1 := by
  rw [Vec3.norm_sq, ← Quat.normSq_eq]; exact hq

/-- norm of the regime-1 logarithm: `2·arctan(‖v‖/|w|)` -/
theorem SO3Log_r1_norm (eps : ℝ) (q : Quat ℝ) (h0 : 0 ≤ eps) (h1 : eps < q.vec.norm) (h2 : eps < |q.w|) :
    (SO3Log eps q).norm = 2 * Real.arctan (q.vec.norm / |q.w|) := by
  have hvn : 0 < q.vec.norm := lt_of_le_of_lt h0 h1
  rw [SO3Log_r1 eps q h1 h2, Vec3.norm_smul, abs_div, abs_mul, abs_of_pos hvn, abs_two,
    abs_arctan_div _ _ (le_of_lt hvn)]
  field_simp

/-- regime 1 of `Log` followed by `Exp` returns `sign(w)·q` exactly -/
theorem so3Exp_SO3Log_r1 (eps : ℝ) (q : Quat ℝ) (hq : q.normSq = 1) (h0 : 0 ≤ eps) (he1 : eps ≤ 1)
    (h1 : eps < q.vec.norm) (h2 : eps < |q.w|) :
    so3Exp eps (SO3Log eps q) = Quat.mk' (q.vec.smul (|q.w| / q.w)) |q.w| := by
  have hvn : 0 < q.vec.norm := lt_of_le_of_lt h0 h1
  have hwabs : 0 < |q.w| := lt_of_le_of_lt h0 h2
  have hw : q.w ≠ 0 := abs_pos.mp hwabs
  have hunit := unit_parts q hq
  have hunit' : q.vec.norm * q.vec.norm + |q.w| * |q.w| = 1 := by rw [abs_mul_abs_self]; exact hunit
  have hwle : |q.w| ≤ 1 := by nlinarith [mul_self_nonneg q.vec.norm]
  have htlt : eps < q.vec.norm / |q.w| := by rw [lt_div_iff₀ hwabs]; nlinarith
  have hθ : eps < 2 * Real.arctan (q.vec.norm / |q.w|) := eps_lt_two_arctan h0 he1 htlt
  have ht0 : 0 < Real.arctan (q.vec.norm / |q.w|) := by linarith
  have hsin : Real.sin (Real.arctan (q.vec.norm / |q.w|)) = q.vec.norm := by
    rw [sin_arctan_div (ne_of_gt hwabs) hunit', abs_abs]; field_simp
  have hcos : Real.cos (Real.arctan (q.vec.norm / |q.w|)) = |q.w| := by
    rw [cos_arctan_div (ne_of_gt hwabs) hunit', abs_abs]
  have hnorm := SO3Log_r1_norm eps q h0 h1 h2
  rw [so3Exp_closed eps _ (by rw [hnorm]; exact hθ), hnorm,
    show 2 * Real.arctan (q.vec.norm / |q.w|) / 2 = Real.arctan (q.vec.norm / |q.w|) by ring,
    hsin, hcos, SO3Log_r1 eps q h1 h2, Vec3.smul_smul, arctan_div_eq _ _ hw]
  congr 2
  field_simp

@[simp] theorem Quat.mk'_vec (v : Vec3 ℝ) (w : ℝ) : (Quat.mk' v w).vec = v := rfl
@[simp] theorem Quat.mk'_w (v : Vec3 ℝ) (w : ℝ) : (Quat.mk' v w).w = w := rfl

/-- squared Euclidean distance of two quaternions (as points of ℝ⁴) -/
noncomputable def Quat.distSq (a b : Quat ℝ) : ℝ :=
  (a.x - b.x) ^ 2 + (a.y - b.y) ^ 2 + (a.z - b.z) ^ 2 + (a.w - b.w) ^ 2

/-- `c·q` -/
noncomputable def Quat.scale (c : ℝ) (q : Quat ℝ) : Quat ℝ := ⟨c * q.x, c * q.y, c * q.z, c * q.w⟩

theorem Quat.scale_one (q : Quat ℝ) : Quat.scale 1 q = q := by unfold Quat.scale; ext <;> simp
theorem Quat.scale_neg_one (q : Quat ℝ) : Quat.scale (-1) q = q.neg := by
  unfold Quat.scale Quat.neg; ext <;> simp

/-- regime 2 (`|w| ≤ eps`): the logarithm has norm exactly `π` -/
theorem SO3Log_r2_norm (eps : ℝ) (q : Quat ℝ) (h0 : 0 ≤ eps) (h1 : eps < q.vec.norm) (h2 : ¬ eps < |q.w|) :
    (SO3Log eps q).norm = Real.pi := by
  have hvn : 0 < q.vec.norm := lt_of_le_of_lt h0 h1
  rw [SO3Log_r2 eps q h1 h2, Vec3.norm_smul, abs_div, abs_mul, spm_abs, abs_of_pos hvn,
    abs_of_pos Real.pi_pos]
  field_simp

/-- regime 2: `Exp (Log q) = (pm(w)·v/‖v‖, 0)` exactly -/
theorem so3Exp_SO3Log_r2 (eps : ℝ) (q : Quat ℝ) (h0 : 0 ≤ eps) (hpi : eps < Real.pi)
    (h1 : eps < q.vec.norm) (h2 : ¬ eps < |q.w|) :
    so3Exp eps (SO3Log eps q) = Quat.mk' (q.vec.smul (spm q.w / q.vec.norm)) 0 := by
  have hvn : 0 < q.vec.norm := lt_of_le_of_lt h0 h1
  have hnorm := SO3Log_r2_norm eps q h0 h1 h2
  rw [so3Exp_closed eps _ (by rw [hnorm]; exact hpi), hnorm, Real.sin_pi_div_two, Real.cos_pi_div_two,
    SO3Log_r2 eps q h1 h2, Vec3.smul_smul]
  congr 2
  have := Real.pi_ne_zero
  field_simp

/-- regime 2, unit `q`: the round trip misses `pm(w)·q` by `√(2(1−‖v‖)) ≤ √2·|w| ≤ √2·eps` -/
theorem so3Exp_SO3Log_r2_dist (eps : ℝ) (q : Quat ℝ) (hq : q.normSq = 1) (h0 : 0 ≤ eps) (hpi : eps < Real.pi)
    (h1 : eps < q.vec.norm) (h2 : ¬ eps < |q.w|) :
    Quat.distSq (so3Exp eps (SO3Log eps q)) (Quat.scale (spm q.w) q) ≤ 2 * eps ^ 2 := by
  have hvn : 0 < q.vec.norm := lt_of_le_of_lt h0 h1
  have hunit := unit_parts q hq
  have hwle : |q.w| ≤ eps := not_lt.mp h2
  have hw2 : q.w * q.w ≤ eps ^ 2 := by
    have := mul_self_le_mul_self (abs_nonneg q.w) hwle
    rw [abs_mul_abs_self] at this; nlinarith
  have hvn1 : q.vec.norm ≤ 1 := by nlinarith [mul_self_nonneg q.w]
  have hns : q.vec.normSq = q.vec.norm * q.vec.norm := (Vec3.norm_sq q.vec).symm
  have key : Quat.distSq (so3Exp eps (SO3Log eps q)) (Quat.scale (spm q.w) q) = 2 * (1 - q.vec.norm) := by
    rw [so3Exp_SO3Log_r2 eps q h0 hpi h1 h2]
    unfold Quat.distSq Quat.scale
    have hs := spm_sq q.w
    have hn : q.x * q.x + q.y * q.y + q.z * q.z = q.vec.norm * q.vec.norm := by
      rw [← hns]; rfl
    generalize q.vec.norm = n at hn hvn ⊢
    generalize spm q.w = s at hs ⊢
    simp only [Quat.mk', Quat.vec, Vec3.smul]
    have hn0 : n ≠ 0 := ne_of_gt hvn
    have e : (s / n * q.x - s * q.x) ^ 2 + (s / n * q.y - s * q.y) ^ 2 + (s / n * q.z - s * q.z) ^ 2 +
        (0 - s * q.w) ^ 2
        = (s * s) * ((q.x * q.x + q.y * q.y + q.z * q.z) * (1 / n - 1) ^ 2 + q.w * q.w) := by ring
    rw [e, hs, hn]
    have e3 : n * n * (1 / n - 1) ^ 2 = (1 - n) ^ 2 := by field_simp
    rw [e3]
    have hu : n * n + q.w * q.w = 1 := by rw [← hn]; exact hq
    nlinarith
  rw [key]
  nlinarith

/-- regime 3 (`‖v‖ ≤ eps ≤ 1/2`), unit `q`: the logarithm is short -/
theorem SO3Log_r3_norm_le (eps : ℝ) (q : Quat ℝ) (hq : q.normSq = 1) (he : eps ≤ 1 / 2)
    (h1 : ¬ eps < q.vec.norm) : (SO3Log eps q).norm ≤ 2 := by
  have hvn0 := Vec3.norm_nonneg q.vec
  have hvn : q.vec.norm ≤ 1 / 2 := by linarith [not_lt.mp h1]
  have hunit := unit_parts q hq
  have hw2 : 3 / 4 ≤ q.w * q.w := by nlinarith
  have hw : q.w ≠ 0 := by intro h; rw [h] at hw2; norm_num at hw2
  have hwabs : 0 < |q.w| := abs_pos.mpr hw
  have hvw : q.vec.norm ≤ |q.w| := by
    by_contra h
    push Not at h
    have := mul_self_lt_mul_self (abs_nonneg q.w) h
    rw [abs_mul_abs_self] at this; nlinarith
  rw [SO3Log_r3 eps q h1, Vec3.norm_smul]
  have e : 2 * (1 / q.w - q.vec.norm * q.vec.norm / (3 * (q.w * q.w * q.w)))
      = (2 / q.w) * (1 - q.vec.norm * q.vec.norm / (3 * (q.w * q.w))) := by field_simp
  have hww : 0 < q.w * q.w := by nlinarith
  have hr : 0 ≤ q.vec.norm * q.vec.norm / (3 * (q.w * q.w)) := by positivity
  have hr1 : q.vec.norm * q.vec.norm / (3 * (q.w * q.w)) ≤ 1 := by
    rw [div_le_one (by positivity)]; nlinarith
  rw [e, abs_mul, abs_div, abs_two,
    abs_of_nonneg (show 0 ≤ 1 - q.vec.norm * q.vec.norm / (3 * (q.w * q.w)) by linarith)]
  calc 2 / |q.w| * (1 - q.vec.norm * q.vec.norm / (3 * (q.w * q.w))) * q.vec.norm
      ≤ 2 / |q.w| * 1 * |q.w| := by gcongr; linarith
    _ = 2 := by field_simp

/-! ## SO3 : `Log (-q)`, `Log (q⁻¹)` -/

theorem SO3Log_conj (eps : ℝ) (q : Quat ℝ) : SO3Log eps q.conj = (SO3Log eps q).neg := by
  unfold SO3Log
  rw [Quat.vec_conj, Vec3.norm_neg, Quat.w_conj, Vec3.neg_smul]

theorem so3LogFactor_neg (eps vn w : ℝ) (h : w ≠ 0 ∨ ¬ eps < vn) :
    so3LogFactor eps vn (-w) = -so3LogFactor eps vn w := by
  by_cases h1 : eps < vn
  · by_cases h2 : eps < |w|
    · rw [so3LogFactor_r1 _ _ _ h1 (by rw [abs_neg]; exact h2), so3LogFactor_r1 _ _ _ h1 h2, div_neg,
        Real.arctan_neg]; ring
    · have hw : w ≠ 0 := by
        rcases h with h | h
        · exact h
        · exact absurd h1 h
      rw [so3LogFactor_r2 _ _ _ h1 (by rw [abs_neg]; exact h2), so3LogFactor_r2 _ _ _ h1 h2, spm_neg hw]; ring
  · rw [so3LogFactor_r3 _ _ _ h1, so3LogFactor_r3 _ _ _ h1]
    by_cases hw : w = 0
    · subst hw; simp
    · field_simp; ring

theorem SO3Log_neg' (eps : ℝ) (q : Quat ℝ) (h : q.w ≠ 0 ∨ ¬ eps < q.vec.norm) :
    SO3Log eps q.neg = SO3Log eps q := by
  unfold SO3Log
  rw [Quat.vec_neg, Vec3.norm_neg, Quat.w_neg, so3LogFactor_neg eps _ _ h, Vec3.neg_smul']

/-! ## SO3 : `Log ∘ Exp` -/

theorem so3Exp_closed_vec_norm (eps : ℝ) (x : Vec3 ℝ) (h0 : 0 ≤ eps) (h : eps < x.norm) (hpi : x.norm ≤ 2 * Real.pi) :
    (so3Exp eps x).vec.norm = Real.sin (x.norm / 2) := by
  have hpos : 0 < x.norm := lt_of_le_of_lt h0 h
  have hs : 0 ≤ Real.sin (x.norm / 2) := Real.sin_nonneg_of_nonneg_of_le_pi (by linarith) (by linarith)
  rw [so3Exp_closed eps x h, Quat.mk'_vec, Vec3.norm_smul, abs_div, abs_of_nonneg hs, abs_of_pos hpos]
  field_simp

/-- `Log (Exp x) = x` when the quaternion `Exp x` falls in regime 1 of the logarithm -/
theorem SO3Log_so3Exp_r1 (eps : ℝ) (x : Vec3 ℝ) (h0 : 0 ≤ eps) (h : eps < x.norm) (hpi : x.norm < Real.pi)
    (hs : eps < Real.sin (x.norm / 2)) (hc : eps < Real.cos (x.norm / 2)) :
    SO3Log eps (so3Exp eps x) = x := by
  have hpos : 0 < x.norm := lt_of_le_of_lt h0 h
  have hvn := so3Exp_closed_vec_norm eps x h0 h (by linarith [Real.pi_pos])
  have hw : (so3Exp eps x).w = Real.cos (x.norm / 2) := by rw [so3Exp_closed eps x h]; rfl
  have hcpos : 0 < Real.cos (x.norm / 2) := lt_of_le_of_lt h0 hc
  have hspos : 0 < Real.sin (x.norm / 2) := lt_of_le_of_lt h0 hs
  rw [SO3Log_r1 eps _ (by rw [hvn]; exact hs) (by rw [hw, abs_of_pos hcpos]; exact hc), hvn, hw,
    ← Real.tan_eq_sin_div_cos, Real.arctan_tan (by linarith) (by linarith)]
  rw [so3Exp_closed eps x h, Quat.mk'_vec, Vec3.smul_smul]
  have : Real.sin (x.norm / 2) / x.norm * (2 * (x.norm / 2) / Real.sin (x.norm / 2)) = 1 := by
    field_simp
  rw [this, Vec3.smul_one]

/-- near `π` (`cos(θ/2) ≤ eps`) the logarithm returns `x` rescaled to length `π` -/
theorem SO3Log_so3Exp_r2 (eps : ℝ) (x : Vec3 ℝ) (h0 : 0 ≤ eps) (h : eps < x.norm) (hpi : x.norm ≤ Real.pi)
    (hs : eps < Real.sin (x.norm / 2)) (hc : ¬ eps < Real.cos (x.norm / 2)) :
    SO3Log eps (so3Exp eps x) = x.smul (Real.pi / x.norm) := by
  have hpos : 0 < x.norm := lt_of_le_of_lt h0 h
  have hvn := so3Exp_closed_vec_norm eps x h0 h (by linarith [Real.pi_pos])
  have hw : (so3Exp eps x).w = Real.cos (x.norm / 2) := by rw [so3Exp_closed eps x h]; rfl
  have hc0 : 0 ≤ Real.cos (x.norm / 2) :=
    Real.cos_nonneg_of_neg_pi_div_two_le_of_le (by linarith [Real.pi_pos]) (by linarith)
  have hspos : 0 < Real.sin (x.norm / 2) := lt_of_le_of_lt h0 hs
  have hspm : spm (Real.cos (x.norm / 2)) = 1 := by
    rw [spm_real]; simp [not_lt.mpr hc0]
  rw [SO3Log_r2 eps _ (by rw [hvn]; exact hs) (by rw [hw, abs_of_nonneg hc0]; exact hc), hvn, hw, hspm]
  rw [so3Exp_closed eps x h, Quat.mk'_vec, Vec3.smul_smul]
  congr 1
  field_simp

/-- … and that rescaling moves `x` by `π − θ ≤ π·eps` -/
theorem pi_sub_le_of_cos_le (eps th : ℝ) (h0 : 0 ≤ th) (hpi : th ≤ Real.pi) (hc : Real.cos (th / 2) ≤ eps) :
    Real.pi - th ≤ Real.pi * eps := by
  have hp := Real.pi_pos
  have h1 : 2 / Real.pi * (Real.pi / 2 - th / 2) ≤ Real.sin (Real.pi / 2 - th / 2) :=
    Real.mul_le_sin (by linarith) (by linarith)
  rw [Real.sin_pi_div_two_sub] at h1
  have e : 2 / Real.pi * (Real.pi / 2 - th / 2) = (Real.pi - th) / Real.pi := by field_simp
  rw [e, div_le_iff₀ hp] at h1
  nlinarith

/-! ## calculus of `polyK a b c x = a·1 + b·K + c·K²`  (`K = hat x`, `K³ = −‖x‖²·K`) -/

theorem polyK_mul (a1 b1 c1 a2 b2 c2 : ℝ) (x : Vec3 ℝ) :
    (polyK a1 b1 c1 x).mul (polyK a2 b2 c2 x) =
      polyK (a1 * a2) (a1 * b2 + b1 * a2 - x.normSq * (b1 * c2 + c1 * b2))
        (a1 * c2 + c1 * a2 + b1 * b2 - x.normSq * (c1 * c2)) x := by
  unfold polyK; ext <;> lie_unfold <;> ring

theorem polyK_one (x : Vec3 ℝ) : polyK 1 0 0 x = Mat3.one := by
  unfold polyK; ext <;> lie_unfold <;> ring

theorem polyK_neg (a b c : ℝ) (x : Vec3 ℝ) : polyK a b c x.neg = polyK a (-b) c x := by
  unfold polyK; ext <;> lie_unfold <;> ring

theorem polyK_smul (s a b c : ℝ) (x : Vec3 ℝ) : Mat3.smul s (polyK a b c x) = polyK (s * a) (s * b) (s * c) x := by
  unfold polyK; ext <;> lie_unfold <;> ring

/-- `det (a·1 + b·K + c·K²) = a·((a − c‖x‖²)² + b²‖x‖²)` (eigenvalues `a`, `a − cθ² ± i bθ`) -/
theorem polyK_det (a b c : ℝ) (x : Vec3 ℝ) :
    (polyK a b c x).det = a * ((a - c * x.normSq) ^ 2 + b ^ 2 * x.normSq) := by
  unfold polyK; lie_unfold; ring

theorem Mat3.mul_mulVec (A B : Mat3 ℝ) (v : Vec3 ℝ) : (A.mul B).mulVec v = A.mulVec (B.mulVec v) := by
  ext <;> lie_unfold <;> ring
theorem Mat3.one_mulVec (v : Vec3 ℝ) : (Mat3.one : Mat3 ℝ).mulVec v = v := by
  ext <;> lie_unfold <;> ring
theorem Mat3.mulVec_neg (A : Mat3 ℝ) (v : Vec3 ℝ) : A.mulVec v.neg = (A.mulVec v).neg := by
  ext <;> lie_unfold <;> ring
theorem Mat3.mulVec_smul (A : Mat3 ℝ) (c : ℝ) (v : Vec3 ℝ) : A.mulVec (v.smul c) = (A.mulVec v).smul c := by
  ext <;> lie_unfold <;> ring
theorem Mat3.smul_mulVec (A : Mat3 ℝ) (c : ℝ) (v : Vec3 ℝ) : (Mat3.smul c A).mulVec v = (A.mulVec v).smul c := by
  ext <;> lie_unfold <;> ring

theorem Mat3.adjugate_mul (m : Mat3 ℝ) : m.adjugate.mul m = Mat3.smul m.det Mat3.one := by
  ext <;> lie_unfold <;> ring
theorem Mat3.mul_adjugate (m : Mat3 ℝ) : m.mul m.adjugate = Mat3.smul m.det Mat3.one := by
  ext <;> lie_unfold <;> ring

/-- the adjugate formula that stands in for `torch.inverse` is a left inverse when `det ≠ 0` -/
theorem Mat3.inv_mulVec_mulVec (m : Mat3 ℝ) (h : m.det ≠ 0) (v : Vec3 ℝ) : m.inv.mulVec (m.mulVec v) = v := by
  unfold Mat3.inv
  rw [Mat3.smul_mulVec, ← Mat3.mul_mulVec, Mat3.adjugate_mul, Mat3.smul_mulVec, Mat3.one_mulVec, Vec3.smul_smul]
  simp only [k_real, Nat.cast_one]
  rw [mul_one_div_cancel h, Vec3.smul_one]
/-- … and a right inverse -/
theorem Mat3.mulVec_inv_mulVec (m : Mat3 ℝ) (h : m.det ≠ 0) (v : Vec3 ℝ) : m.mulVec (m.inv.mulVec v) = v := by
  unfold Mat3.inv
  rw [Mat3.smul_mulVec, Mat3.mulVec_smul, ← Mat3.mul_mulVec, Mat3.mul_adjugate, Mat3.smul_mulVec, Mat3.one_mulVec,
    Vec3.smul_smul]
  simp only [k_real, Nat.cast_one]
  rw [mul_one_div_cancel h, Vec3.smul_one]

/-! ## `so3Jl`, `so3JlInv` -/

theorem so3Jl_closed (eps : ℝ) (x : Vec3 ℝ) (h : eps < x.norm) :
    so3Jl eps x = polyK 1 ((1 - Real.cos x.norm) / (x.norm * x.norm))
      ((x.norm - Real.sin x.norm) / (x.norm * (x.norm * x.norm))) x := by
  unfold so3Jl so3JlCoef
  simp only [lt_real, h, decide_true, if_true, k_real, Nat.cast_one, sin_real, cos_real]

theorem so3Jl_taylor (eps : ℝ) (x : Vec3 ℝ) (h : ¬ eps < x.norm) :
    so3Jl eps x = polyK 1 (1 / 2 - 1 / 24 * x.normSq) (1 / 6 - 1 / 120 * x.normSq) x := by
  unfold so3Jl so3JlCoef
  simp only [lt_real, h, decide_false, Bool.false_eq_true, if_false, k_real, q_real, Nat.cast_one,
    Nat.cast_ofNat, Vec3.norm_sq]

theorem so3JlInv_closed (eps : ℝ) (x : Vec3 ℝ) (h : eps < x.norm) :
    so3JlInv eps x = polyK 1 (-(1 / 2))
      ((1 - x.norm * Real.cos (x.norm / 2) / (2 * Real.sin (x.norm / 2))) / (x.norm * x.norm)) x := by
  unfold so3JlInv so3JlInvCoef
  simp only [lt_real, h, decide_true, if_true, k_real, q_real, Nat.cast_one, Nat.cast_ofNat, sin_real, cos_real]
  rw [show (1 : ℝ) / 2 * x.norm = x.norm / 2 by ring]

theorem so3JlInv_taylor (eps : ℝ) (x : Vec3 ℝ) (h : ¬ eps < x.norm) :
    so3JlInv eps x = polyK 1 (-(1 / 2)) (1 / 12) x := by
  unfold so3JlInv so3JlInvCoef
  simp only [lt_real, h, decide_false, Bool.false_eq_true, if_false, k_real, q_real, Nat.cast_one, Nat.cast_ofNat]

theorem jl_ident1 (θ : ℝ) (hθ : θ ≠ 0) (hS : Real.sin (θ / 2) ≠ 0) :
    (1 - Real.cos θ) / (θ * θ) + -(1 / 2) - θ * θ * (-(1 / 2) * ((θ - Real.sin θ) / (θ * (θ * θ))) +
      (1 - θ * Real.cos (θ / 2) / (2 * Real.sin (θ / 2))) / (θ * θ) * ((1 - Real.cos θ) / (θ * θ))) = 0 := by
  have hc := Real.cos_two_mul (θ / 2)
  have hs := Real.sin_two_mul (θ / 2)
  have h1 := Real.sin_sq_add_cos_sq (θ / 2)
  rw [show 2 * (θ / 2) = θ by ring] at hc hs
  rw [hc, hs]
  generalize Real.sin (θ / 2) = S at *
  generalize Real.cos (θ / 2) = C at *
  field_simp
  linear_combination (-2 * C * θ) * h1

theorem jl_ident2 (θ : ℝ) (hθ : θ ≠ 0) (hS : Real.sin (θ / 2) ≠ 0) :
    (θ - Real.sin θ) / (θ * (θ * θ)) + (1 - θ * Real.cos (θ / 2) / (2 * Real.sin (θ / 2))) / (θ * θ)
      + -(1 / 2) * ((1 - Real.cos θ) / (θ * θ))
      - θ * θ * ((1 - θ * Real.cos (θ / 2) / (2 * Real.sin (θ / 2))) / (θ * θ) *
          ((θ - Real.sin θ) / (θ * (θ * θ)))) = 0 := by
  have hc := Real.cos_two_mul (θ / 2)
  have hs := Real.sin_two_mul (θ / 2)
  have h1 := Real.sin_sq_add_cos_sq (θ / 2)
  rw [show 2 * (θ / 2) = θ by ring] at hc hs
  rw [hc, hs]
  generalize Real.sin (θ / 2) = S at *
  generalize Real.cos (θ / 2) = C at *
  field_simp
  linear_combination (0) * h1

/-- `so3_Jl_inv(x) · so3_Jl(x) = 1` on the closed-form branch (any `θ` with `sin(θ/2) ≠ 0`, e.g. `0<θ<2π`) -/
theorem so3JlInv_mul_so3Jl (eps : ℝ) (x : Vec3 ℝ) (h0 : 0 ≤ eps) (h : eps < x.norm)
    (hS : Real.sin (x.norm / 2) ≠ 0) : (so3JlInv eps x).mul (so3Jl eps x) = Mat3.one := by
  have hθ : x.norm ≠ 0 := ne_of_gt (lt_of_le_of_lt h0 h)
  rw [so3JlInv_closed eps x h, so3Jl_closed eps x h, polyK_mul, ← Vec3.norm_sq]
  have e1 := jl_ident1 x.norm hθ hS
  have e2 := jl_ident2 x.norm hθ hS
  have hb : (1 : ℝ) * ((1 - Real.cos x.norm) / (x.norm * x.norm)) + -(1 / 2) * 1 -
      x.norm * x.norm * (-(1 / 2) * ((x.norm - Real.sin x.norm) / (x.norm * (x.norm * x.norm))) +
        (1 - x.norm * Real.cos (x.norm / 2) / (2 * Real.sin (x.norm / 2))) / (x.norm * x.norm) *
          ((1 - Real.cos x.norm) / (x.norm * x.norm))) = 0 := by linear_combination e1
  have hc : (1 : ℝ) * ((x.norm - Real.sin x.norm) / (x.norm * (x.norm * x.norm))) +
      (1 - x.norm * Real.cos (x.norm / 2) / (2 * Real.sin (x.norm / 2))) / (x.norm * x.norm) * 1 +
      -(1 / 2) * ((1 - Real.cos x.norm) / (x.norm * x.norm)) -
      x.norm * x.norm * ((1 - x.norm * Real.cos (x.norm / 2) / (2 * Real.sin (x.norm / 2))) / (x.norm * x.norm) *
        ((x.norm - Real.sin x.norm) / (x.norm * (x.norm * x.norm)))) = 0 := by linear_combination e2
  rw [hb, hc, mul_one, polyK_one]

theorem so3Jl_mul_so3JlInv (eps : ℝ) (x : Vec3 ℝ) (h0 : 0 ≤ eps) (h : eps < x.norm)
    (hS : Real.sin (x.norm / 2) ≠ 0) : (so3Jl eps x).mul (so3JlInv eps x) = Mat3.one := by
  have e := so3JlInv_mul_so3Jl eps x h0 h hS
  rw [so3JlInv_closed eps x h, so3Jl_closed eps x h, polyK_mul] at e
  rw [so3JlInv_closed eps x h, so3Jl_closed eps x h, polyK_mul, ← e]
  congr 1 <;> ring

/-- Taylor branch (`θ ≤ eps`): the product misses the identity by `O(θ⁴)·K + O(θ²)·K²`, exactly -/
theorem so3JlInv_mul_so3Jl_taylor (eps : ℝ) (x : Vec3 ℝ) (h : ¬ eps < x.norm) :
    (so3JlInv eps x).mul (so3Jl eps x) =
      polyK 1 (-(x.normSq ^ 2) / 1440) (-x.normSq / 720 + x.normSq ^ 2 / 1440) x := by
  rw [so3JlInv_taylor eps x h, so3Jl_taylor eps x h, polyK_mul]
  congr 1 <;> ring

/-! ## `rxso3_Ws` : the four regimes, determinant -/

theorem rxso3WsCoef_r1 (eps th sg : ℝ) (hs : ¬ eps < |sg|) (ht : ¬ eps < th) :
    rxso3WsCoef eps th sg = (1 / 2, 1 / 6, 1) := by
  unfold rxso3WsCoef
  simp only [lt_real, sabs_real, hs, ht, decide_false, Bool.not_false, Bool.and_self, if_true,
    Bool.false_eq_true, if_false, q_real, k_real, Nat.cast_one, Nat.cast_ofNat]

theorem rxso3WsCoef_r2 (eps th sg : ℝ) (hs : ¬ eps < |sg|) (ht : eps < th) :
    rxso3WsCoef eps th sg =
      ((1 - Real.cos th) * (1 / (th * th)), (th - Real.sin th) / (th * th * th), 1) := by
  unfold rxso3WsCoef
  simp only [lt_real, sabs_real, hs, ht, decide_false, decide_true, Bool.not_false, Bool.not_true, Bool.and_false,
    Bool.and_self, if_true, Bool.false_eq_true, if_false, q_real, k_real, Nat.cast_one,
    Nat.cast_ofNat, sin_real, cos_real]

theorem rxso3WsCoef_r3 (eps th sg : ℝ) (hs : eps < |sg|) (ht : ¬ eps < th) :
    rxso3WsCoef eps th sg =
      ((sg * Real.exp sg - (Real.exp sg - 1)) / (sg * sg),
       (1 / 2 * (sg * sg) * Real.exp sg + (Real.exp sg - 1) - sg * Real.exp sg) / (sg * sg * sg),
       (Real.exp sg - 1) / sg) := by
  unfold rxso3WsCoef
  simp only [lt_real, sabs_real, hs, ht, decide_false, decide_true, Bool.not_false, Bool.not_true,
    Bool.and_true, Bool.and_self, if_true, Bool.false_eq_true, if_false, q_real, k_real,
    Nat.cast_one, Nat.cast_ofNat, exp_real]

theorem rxso3WsCoef_r4 (eps th sg : ℝ) (hs : eps < |sg|) (ht : eps < th) :
    rxso3WsCoef eps th sg =
      ((Real.exp sg * Real.sin th * sg -
          ((Real.exp sg - 1) * Real.cos th - 2 * (Real.sin (th / 2) * Real.sin (th / 2))) * th) /
          (th * (th * th + sg * sg)),
       ((Real.exp sg - 1) / sg -
          (((Real.exp sg - 1) * Real.cos th - 2 * (Real.sin (th / 2) * Real.sin (th / 2))) * sg +
            Real.exp sg * Real.sin th * th) / (th * th + sg * sg)) * (1 / (th * th)),
       (Real.exp sg - 1) / sg) := by
  unfold rxso3WsCoef
  simp only [lt_real, sabs_real, hs, ht, decide_true, Bool.not_true, Bool.and_false, Bool.false_and,
    Bool.and_self, if_true, Bool.false_eq_true, if_false, q_real, k_real, Nat.cast_one, Nat.cast_ofNat,
    exp_real, sin_real, cos_real]
  rw [show (1 : ℝ) / 2 * th = th / 2 by ring]

theorem rxso3Ws_eq (eps : ℝ) (x : rxso3 ℝ) :
    rxso3Ws eps x = polyK (rxso3WsCoef eps x.phi.norm x.sigma).2.2 (rxso3WsCoef eps x.phi.norm x.sigma).1
      (rxso3WsCoef eps x.phi.norm x.sigma).2.1 x.phi := rfl

theorem exp_sub_one_ne_zero {s : ℝ} (h : s ≠ 0) : Real.exp s - 1 ≠ 0 := by
  intro e
  have : Real.exp s = 1 := by linarith
  exact h (Real.exp_eq_one_iff s |>.mp this)

/-- `σ e^σ − (e^σ − 1) > 0` for `σ ≠ 0` -/
theorem ws_A3_pos {s : ℝ} (h : s ≠ 0) : 0 < s * Real.exp s - (Real.exp s - 1) := by
  have h1 : -s + 1 < Real.exp (-s) := Real.add_one_lt_exp (neg_ne_zero.mpr h)
  have hE : 0 < Real.exp s := Real.exp_pos s
  have h2 : Real.exp (-s) * Real.exp s = 1 := by rw [← Real.exp_add]; simp
  nlinarith

/-- the coupling matrix of `sim3` is invertible for every `σ` and every rotation angle below `2π` -/
theorem rxso3Ws_det_ne_zero (eps : ℝ) (x : rxso3 ℝ) (h0 : 0 ≤ eps) (hth : x.phi.norm < 2 * Real.pi) :
    (rxso3Ws eps x).det ≠ 0 := by
  rw [rxso3Ws_eq, polyK_det, ← Vec3.norm_sq]
  have hn0 := Vec3.norm_nonneg x.phi
  generalize x.phi.norm = th at *
  generalize x.sigma = sg at *
  by_cases hs : eps < |sg|
  · have hsg : sg ≠ 0 := abs_pos.mp (lt_of_le_of_lt h0 hs)
    have hE := exp_sub_one_ne_zero hsg
    have hC : (Real.exp sg - 1) / sg ≠ 0 := div_ne_zero hE hsg
    by_cases ht : eps < th
    · -- regime 4
      have hth0 : 0 < th := lt_of_le_of_lt h0 ht
      rw [rxso3WsCoef_r4 eps th sg hs ht]
      simp only []
      have hcc : 0 < th * th + sg * sg := by nlinarith [mul_pos hth0 hth0, mul_self_nonneg sg]
      have hcos : Real.cos th = 1 - 2 * (Real.sin (th / 2) * Real.sin (th / 2)) := by
        have := Real.cos_two_mul (th / 2)
        have h1 := Real.sin_sq_add_cos_sq (th / 2)
        rw [show 2 * (th / 2) = th by ring] at this
        nlinarith
      have hsc := Real.sin_sq_add_cos_sq th
      have key : ((Real.exp sg - 1) / sg -
          (((Real.exp sg - 1) / sg -
            (((Real.exp sg - 1) * Real.cos th - 2 * (Real.sin (th / 2) * Real.sin (th / 2))) * sg +
              Real.exp sg * Real.sin th * th) / (th * th + sg * sg)) * (1 / (th * th))) * (th * th)) ^ 2 +
          ((Real.exp sg * Real.sin th * sg -
            ((Real.exp sg - 1) * Real.cos th - 2 * (Real.sin (th / 2) * Real.sin (th / 2))) * th) /
            (th * (th * th + sg * sg))) ^ 2 * (th * th)
          = ((Real.exp sg - 1) ^ 2 + 2 * Real.exp sg * (1 - Real.cos th)) / (th * th + sg * sg) := by
        rw [← sub_eq_zero]
        have e2 : 2 * (Real.sin (th / 2) * Real.sin (th / 2)) = 1 - Real.cos th := by linarith
        rw [e2]
        generalize Real.exp sg = E at *
        generalize Real.cos th = c at *
        generalize Real.sin th = s at *
        field_simp
        linear_combination (E ^ 2 * sg ^ 2 * (th ^ 2 + sg ^ 2)) * hsc
      rw [key]
      have hpos : 0 < (Real.exp sg - 1) ^ 2 + 2 * Real.exp sg * (1 - Real.cos th) := by
        have h1 : 0 < (Real.exp sg - 1) ^ 2 := by positivity
        have h2 : 0 ≤ 2 * Real.exp sg * (1 - Real.cos th) :=
          mul_nonneg (by positivity) (by linarith [Real.cos_le_one th])
        linarith
      exact mul_ne_zero hC (ne_of_gt (div_pos hpos hcc))
    · -- regime 3
      rw [rxso3WsCoef_r3 eps th sg hs ht]
      simp only []
      have hA : 0 < (sg * Real.exp sg - (Real.exp sg - 1)) / (sg * sg) :=
        div_pos (ws_A3_pos hsg) (mul_self_pos.mpr hsg)
      apply mul_ne_zero hC
      rcases eq_or_lt_of_le hn0 with h | h
      · rw [← h]; simp only [mul_zero, sub_zero, add_zero]; exact pow_ne_zero 2 hC
      · have : 0 < ((sg * Real.exp sg - (Real.exp sg - 1)) / (sg * sg)) ^ 2 * (th * th) := by positivity
        have h2 := sq_nonneg ((Real.exp sg - 1) / sg -
          (1 / 2 * (sg * sg) * Real.exp sg + (Real.exp sg - 1) - sg * Real.exp sg) / (sg * sg * sg) * (th * th))
        exact ne_of_gt (by linarith)
  · by_cases ht : eps < th
    · -- regime 2
      have hth0 : 0 < th := lt_of_le_of_lt h0 ht
      rw [rxso3WsCoef_r2 eps th sg hs ht]
      simp only []
      have hcos : Real.cos th < 1 := by
        have hle := Real.cos_le_one th
        rcases lt_or_eq_of_le hle with h | h
        · exact h
        · exfalso
          have := (Real.cos_eq_one_iff_of_lt_of_lt (by linarith [Real.pi_pos]) hth).mp h
          linarith
      have hsc := Real.sin_sq_add_cos_sq th
      have key : (1 - (th - Real.sin th) / (th * th * th) * (th * th)) ^ 2 +
          ((1 - Real.cos th) * (1 / (th * th))) ^ 2 * (th * th) = 2 * (1 - Real.cos th) / (th * th) := by
        rw [← sub_eq_zero]
        generalize Real.cos th = c at *
        generalize Real.sin th = s at *
        field_simp
        linear_combination (1 : ℝ) * hsc
      rw [key, one_mul]
      exact ne_of_gt (div_pos (by linarith) (by positivity))
    · -- regime 1
      rw [rxso3WsCoef_r1 eps th sg hs ht]
      simp only []
      have : 0 < (1 - 1 / 6 * (th * th)) ^ 2 + (1 / 2 : ℝ) ^ 2 * (th * th) := by nlinarith [sq_nonneg (1 - 1 / 6 * (th * th)), mul_self_nonneg th, sq_nonneg (th * th)]
      rw [one_mul]; exact ne_of_gt this

/-! ## angle facts of the regime-1 logarithm, sufficient conditions for regime 1 after `Exp` -/

/-- for a unit quaternion in regime 1 the recovered angle `θ = ‖Log q‖` satisfies `eps < θ < π` and
`sin(θ/2) = ‖v‖`, `cos(θ/2) = |w|` -/
theorem SO3Log_r1_angle (eps : ℝ) (q : Quat ℝ) (hq : q.normSq = 1) (h0 : 0 ≤ eps) (he1 : eps ≤ 1)
    (h1 : eps < q.vec.norm) (h2 : eps < |q.w|) :
    eps < (SO3Log eps q).norm ∧ (SO3Log eps q).norm < Real.pi ∧
      Real.sin ((SO3Log eps q).norm / 2) = q.vec.norm ∧ Real.cos ((SO3Log eps q).norm / 2) = |q.w| := by
  have hvn : 0 < q.vec.norm := lt_of_le_of_lt h0 h1
  have hwabs : 0 < |q.w| := lt_of_le_of_lt h0 h2
  have hunit := unit_parts q hq
  have hunit' : q.vec.norm * q.vec.norm + |q.w| * |q.w| = 1 := by rw [abs_mul_abs_self]; exact hunit
  have hwle : |q.w| ≤ 1 := by nlinarith [mul_self_nonneg q.vec.norm]
  have htlt : eps < q.vec.norm / |q.w| := by rw [lt_div_iff₀ hwabs]; nlinarith
  have hθ : eps < 2 * Real.arctan (q.vec.norm / |q.w|) := eps_lt_two_arctan h0 he1 htlt
  have hsin : Real.sin (Real.arctan (q.vec.norm / |q.w|)) = q.vec.norm := by
    rw [sin_arctan_div (ne_of_gt hwabs) hunit', abs_abs]; field_simp
  have hcos : Real.cos (Real.arctan (q.vec.norm / |q.w|)) = |q.w| := by
    rw [cos_arctan_div (ne_of_gt hwabs) hunit', abs_abs]
  have hnorm := SO3Log_r1_norm eps q h0 h1 h2
  have hlt := Real.arctan_lt_pi_div_two (q.vec.norm / |q.w|)
  rw [hnorm, show 2 * Real.arctan (q.vec.norm / |q.w|) / 2 = Real.arctan (q.vec.norm / |q.w|) by ring]
  exact ⟨hθ, by linarith, hsin, hcos⟩

/-- `π·eps < θ < π(1−eps)` puts `Exp x` into regime 1 of the logarithm -/
theorem band_sin_cos (eps th : ℝ) (h0 : 0 ≤ eps) (hlo : Real.pi * eps < th) (hhi : th < Real.pi * (1 - eps)) :
    eps < Real.sin (th / 2) ∧ eps < Real.cos (th / 2) := by
  have hp := Real.pi_pos
  have hth0 : 0 < th := lt_of_le_of_lt (by positivity) hlo
  have hthpi : th < Real.pi := by nlinarith
  constructor
  · have h1 : 2 / Real.pi * (th / 2) ≤ Real.sin (th / 2) := Real.mul_le_sin (by linarith) (by linarith)
    have e : 2 / Real.pi * (th / 2) = th / Real.pi := by field_simp
    rw [e] at h1
    have : eps < th / Real.pi := by rw [lt_div_iff₀ hp]; linarith
    linarith
  · have h1 : 2 / Real.pi * (Real.pi / 2 - th / 2) ≤ Real.sin (Real.pi / 2 - th / 2) :=
      Real.mul_le_sin (by linarith) (by linarith)
    rw [Real.sin_pi_div_two_sub] at h1
    have e : 2 / Real.pi * (Real.pi / 2 - th / 2) = (Real.pi - th) / Real.pi := by field_simp
    rw [e] at h1
    have : eps < (Real.pi - th) / Real.pi := by rw [lt_div_iff₀ hp]; linarith
    linarith

/-! ## `Jl⁻¹(−φ)·R(φ)ᵀ = Jl⁻¹(φ)` (used for `Log (X⁻¹) = −Log X` on SE3) -/

theorem Quat.mk'_act (x : Vec3 ℝ) (c w : ℝ) (p : Vec3 ℝ) :
    (Quat.mk' (x.smul c) w).act p = (polyK 1 (2 * w * c) (2 * c * c) x).mulVec p := by
  unfold polyK; ext <;> lie_unfold <;> ring

theorem Quat.conj_mk' (v : Vec3 ℝ) (w : ℝ) : (Quat.mk' v w).conj = Quat.mk' v.neg w := by
  ext <;> lie_unfold

theorem jl_ident3 (θ S C : ℝ) (hθ : θ ≠ 0) (hS : S ≠ 0) (h1 : S ^ 2 + C ^ 2 = 1) :
    1 * -(2 * C * (S / θ)) + 1 / 2 * 1 - θ * θ * (1 / 2 * (2 * (S / θ) * (S / θ)) +
      (1 - θ * C / (2 * S)) / (θ * θ) * -(2 * C * (S / θ))) = -(1 / 2) := by
  field_simp
  linear_combination (-2 * θ) * h1

theorem jl_ident4 (θ S C : ℝ) (hθ : θ ≠ 0) (hS : S ≠ 0) :
    1 * (2 * (S / θ) * (S / θ)) + (1 - θ * C / (2 * S)) / (θ * θ) * 1 + 1 / 2 * -(2 * C * (S / θ)) -
      θ * θ * ((1 - θ * C / (2 * S)) / (θ * θ) * (2 * (S / θ) * (S / θ))) = (1 - θ * C / (2 * S)) / (θ * θ) := by
  field_simp
  ring

/-- `Jl⁻¹(−x) · R(x)ᵀ = Jl⁻¹(x)` on the closed-form branch (`R(x)ᵀ p = Exp(x)⁻¹ · p`) -/
theorem so3JlInv_neg_conj_act (eps : ℝ) (x : Vec3 ℝ) (h0 : 0 ≤ eps) (h : eps < x.norm)
    (hS : Real.sin (x.norm / 2) ≠ 0) (t : Vec3 ℝ) :
    (so3JlInv eps x.neg).mulVec ((so3Exp eps x).conj.act t) = (so3JlInv eps x).mulVec t := by
  have hθ : x.norm ≠ 0 := ne_of_gt (lt_of_le_of_lt h0 h)
  have h1 := Real.sin_sq_add_cos_sq (x.norm / 2)
  rw [so3JlInv_closed eps x.neg (by rw [Vec3.norm_neg]; exact h), Vec3.norm_neg, polyK_neg,
    so3Exp_closed eps x h, Quat.conj_mk', ← Vec3.neg_smul, Quat.mk'_act, polyK_neg, ← Mat3.mul_mulVec, polyK_mul,
    so3JlInv_closed eps x h, ← Vec3.norm_sq]
  have e3 := jl_ident3 x.norm _ _ hθ hS h1
  have e4 := jl_ident4 x.norm (Real.sin (x.norm / 2)) (Real.cos (x.norm / 2)) hθ hS
  congr 2
  · ring
  · linear_combination e3
  · linear_combination e4

theorem Quat.conj_neg_act (q : Quat ℝ) (p : Vec3 ℝ) : q.neg.conj.act p = q.conj.act p := by
  ext <;> lie_unfold <;> ring

/-! ## helpers for the non-vacuity examples -/

theorem Vec3.lt_norm_of_sq_lt {e : ℝ} {x : Vec3 ℝ} (h0 : 0 ≤ e) (h : e * e < x.normSq) : e < x.norm := by
  unfold Vec3.norm
  exact (Real.lt_sqrt h0).mpr (by rw [pow_two]; exact h)

theorem Vec3.norm_axis (a : ℝ) (ha : 0 ≤ a) : (⟨a, 0, 0⟩ : Vec3 ℝ).norm = a := by
  unfold Vec3.norm Vec3.normSq
  simp only [mul_zero, add_zero]
  exact Real.sqrt_mul_self ha

/-! ## series of `arctan` with remainder; regime 3 of `SO3Log` against the exact logarithm -/

theorem arctan_f_deriv (x : ℝ) :
    HasDerivAt (fun x => Real.arctan x - x + x ^ 3 / 3) (x ^ 4 / (1 + x ^ 2)) x := by
  have h1 := Real.hasDerivAt_arctan x
  have h3 : HasDerivAt (fun x : ℝ => x ^ 3 / 3) (x ^ 2) x := by
    exact ((hasDerivAt_pow 3 x).div_const 3).congr_deriv (by norm_num)
  have hne : (1 : ℝ) + x ^ 2 ≠ 0 := by positivity
  exact ((h1.sub (hasDerivAt_id x)).add h3).congr_deriv (by field_simp; ring)

theorem arctan_g_deriv (x : ℝ) :
    HasDerivAt (fun x => x - x ^ 3 / 3 + x ^ 5 / 5 - Real.arctan x) (x ^ 6 / (1 + x ^ 2)) x := by
  have h1 := Real.hasDerivAt_arctan x
  have h3 : HasDerivAt (fun x : ℝ => x ^ 3 / 3) (x ^ 2) x := by
    exact ((hasDerivAt_pow 3 x).div_const 3).congr_deriv (by norm_num)
  have h5 : HasDerivAt (fun x : ℝ => x ^ 5 / 5) (x ^ 4) x := by
    exact ((hasDerivAt_pow 5 x).div_const 5).congr_deriv (by norm_num)
  have hne : (1 : ℝ) + x ^ 2 ≠ 0 := by positivity
  exact ((((hasDerivAt_id x).sub h3).add h5).sub h1).congr_deriv (by field_simp; ring)

/-- two-term series of `arctan` with the next term as error bound, for `t ≥ 0` -/
theorem arctan_series_bounds {t : ℝ} (ht : 0 ≤ t) :
    t - t ^ 3 / 3 ≤ Real.arctan t ∧ Real.arctan t ≤ t - t ^ 3 / 3 + t ^ 5 / 5 := by
  have mf : Monotone (fun x => Real.arctan x - x + x ^ 3 / 3) :=
    monotone_of_deriv_nonneg (fun x => (arctan_f_deriv x).differentiableAt)
      (fun x => by rw [(arctan_f_deriv x).deriv]; positivity)
  have mg : Monotone (fun x => x - x ^ 3 / 3 + x ^ 5 / 5 - Real.arctan x) :=
    monotone_of_deriv_nonneg (fun x => (arctan_g_deriv x).differentiableAt)
      (fun x => by rw [(arctan_g_deriv x).deriv]; positivity)
  have h1 := mf ht
  have h2 := mg ht
  simp only [Real.arctan_zero] at h1 h2
  constructor <;> nlinarith

/-- `|arctan t − (t − t³/3)| ≤ |t|⁵/5` for every real `t` -/
theorem abs_arctan_sub_series (t : ℝ) : |Real.arctan t - (t - t ^ 3 / 3)| ≤ |t| ^ 5 / 5 := by
  rcases le_or_gt 0 t with h | h
  · obtain ⟨h1, h2⟩ := arctan_series_bounds h
    rw [abs_of_nonneg h, abs_of_nonneg (by linarith)]; linarith
  · obtain ⟨h1, h2⟩ := arctan_series_bounds (t := -t) (by linarith)
    rw [Real.arctan_neg] at h1 h2
    rw [abs_of_neg h, abs_of_nonpos (by nlinarith)]
    have e : (-t) ^ 5 = -(t ^ 5) := by ring
    have e3 : (-t) ^ 3 = -(t ^ 3) := by ring
    rw [e3] at h1 h2; rw [e] at h2 ⊢
    linarith

/-- regime 3 (`‖v‖ ≤ eps`): the two-term series used by the code differs from the regime-1 formula
`2·atan(‖v‖/w)/‖v‖` (the exact principal logarithm) by at most `2‖v‖⁴/(5|w|⁵)` -/
theorem so3LogFactor_r3_error (eps vn w : ℝ) (h1 : ¬ eps < vn) (hvn : 0 < vn) (hw : w ≠ 0) :
    |so3LogFactor eps vn w - 2 * Real.arctan (vn / w) / vn| ≤ 2 * vn ^ 4 / (5 * |w| ^ 5) := by
  rw [so3LogFactor_r3 _ _ _ h1]
  have key := abs_arctan_sub_series (vn / w)
  have e : 2 * (1 / w - vn * vn / (3 * (w * w * w))) - 2 * Real.arctan (vn / w) / vn
       = -(2 / vn) * (Real.arctan (vn / w) - (vn / w - (vn / w) ^ 3 / 3)) := by field_simp; ring
  have hwa : 0 < |w| := abs_pos.mpr hw
  rw [e, abs_mul, abs_neg, abs_div, abs_two, abs_of_pos hvn]
  calc 2 / vn * |Real.arctan (vn / w) - (vn / w - (vn / w) ^ 3 / 3)|
      ≤ 2 / vn * (|vn / w| ^ 5 / 5) := by gcongr
    _ = 2 * vn ^ 4 / (5 * |w| ^ 5) := by rw [abs_div, abs_of_pos hvn]; field_simp

theorem Vec3.smul_sub_smul (a b : ℝ) (v : Vec3 ℝ) : (v.smul a).sub (v.smul b) = v.smul (a - b) := by
  ext <;> lie_unfold <;> ring

/-! ## `W(−φ,−σ) = e^{−σ}·R(φ)ᵀ·W(φ,σ)` (used for `Log (X⁻¹) = −Log X` on Sim3) -/

/- regime-4 coefficients in terms of E = e^σ, s = sin θ, c = cos θ -/
theorem ws4_identA (E s c θ σ : ℝ) (hE : E ≠ 0) (hθ : θ ≠ 0) (hσ : σ ≠ 0) (_hcc : θ * θ + σ * σ ≠ 0)
    (hsc : s ^ 2 + c ^ 2 = 1) :
    -(((1 / E) * s * (-σ) - ((1 / E) * c - 1) * θ) / (θ * (θ * θ + σ * σ))) =
      (1 / E) * ((E * s * σ - (E * c - 1) * θ) / (θ * (θ * θ + σ * σ)) + -(s / θ) * ((E - 1) / σ) -
        θ * θ * (-(s / θ) * (((E - 1) / σ - ((E * c - 1) * σ + E * s * θ) / (θ * θ + σ * σ)) * (1 / (θ * θ))) +
          (1 - c) / (θ * θ) * ((E * s * σ - (E * c - 1) * θ) / (θ * (θ * θ + σ * σ))))) := by
  field_simp
  linear_combination (σ * E * θ) * hsc

theorem ws4_identB (E s c θ σ : ℝ) (hE : E ≠ 0) (hθ : θ ≠ 0) (hσ : σ ≠ 0) (_hcc : θ * θ + σ * σ ≠ 0)
    (hsc : s ^ 2 + c ^ 2 = 1) :
    ((1 / E - 1) / (-σ) - (((1 / E) * c - 1) * (-σ) + (1 / E) * s * θ) / (θ * θ + σ * σ)) * (1 / (θ * θ)) =
      (1 / E) * (((E - 1) / σ - ((E * c - 1) * σ + E * s * θ) / (θ * θ + σ * σ)) * (1 / (θ * θ)) +
        (1 - c) / (θ * θ) * ((E - 1) / σ) + -(s / θ) * ((E * s * σ - (E * c - 1) * θ) / (θ * (θ * θ + σ * σ))) -
        θ * θ * ((1 - c) / (θ * θ) * (((E - 1) / σ - ((E * c - 1) * σ + E * s * θ) / (θ * θ + σ * σ)) * (1 / (θ * θ))))) := by
  field_simp
  linear_combination (E * σ ^ 2) * hsc

theorem ws4_identC (E σ : ℝ) (hE : E ≠ 0) (hσ : σ ≠ 0) : (1 / E - 1) / (-σ) = (1 / E) * ((E - 1) / σ) := by
  field_simp
  ring

open Vec3 Quat Mat3 in
/-- regime 4 (`θ > eps`, `|σ| > eps`): `W(−φ,−σ) = e^{−σ}·R(φ)ᵀ·W(φ,σ)`  (i.e. `W(−M) = e^{−M}·W(M)`, `M = σ·1 + K`) -/
theorem rxso3Ws_neg_r4 (eps : ℝ) (phi : Vec3 ℝ) (sg : ℝ) (h0 : 0 ≤ eps) (ht : eps < phi.norm) (hs : eps < |sg|) :
    rxso3Ws eps ⟨phi.neg, -sg⟩ = Mat3.smul (1 / Real.exp sg)
      ((polyK 1 (-(2 * Real.cos (phi.norm / 2) * (Real.sin (phi.norm / 2) / phi.norm)))
        (2 * (Real.sin (phi.norm / 2) / phi.norm) * (Real.sin (phi.norm / 2) / phi.norm)) phi).mul
        (rxso3Ws eps ⟨phi, sg⟩)) := by
  have hθ : phi.norm ≠ 0 := ne_of_gt (lt_of_le_of_lt h0 ht)
  have hσ : sg ≠ 0 := abs_pos.mp (lt_of_le_of_lt h0 hs)
  have hE : Real.exp sg ≠ 0 := Real.exp_ne_zero sg
  have hcc : phi.norm * phi.norm + sg * sg ≠ 0 := by
    have := mul_self_pos.mpr hθ
    nlinarith [mul_self_nonneg sg]
  have hsc := Real.sin_sq_add_cos_sq phi.norm
  have hs2 : 2 * Real.cos (phi.norm / 2) * (Real.sin (phi.norm / 2) / phi.norm) = Real.sin phi.norm / phi.norm := by
    have := Real.sin_two_mul (phi.norm / 2)
    rw [show 2 * (phi.norm / 2) = phi.norm by ring] at this
    rw [this]; ring
  have hc1 : 2 * (Real.sin (phi.norm / 2) * Real.sin (phi.norm / 2)) = 1 - Real.cos phi.norm := by
    have := Real.cos_two_mul (phi.norm / 2)
    have h1 := Real.sin_sq_add_cos_sq (phi.norm / 2)
    rw [show 2 * (phi.norm / 2) = phi.norm by ring] at this
    nlinarith
  have hc2 : 2 * (Real.sin (phi.norm / 2) / phi.norm) * (Real.sin (phi.norm / 2) / phi.norm)
      = (1 - Real.cos phi.norm) / (phi.norm * phi.norm) := by
    rw [← hc1]; field_simp
  rw [rxso3Ws_eq, rxso3Ws_eq]
  simp only []
  rw [Vec3.norm_neg, rxso3WsCoef_r4 eps _ (-sg) (by rw [abs_neg]; exact hs) ht, rxso3WsCoef_r4 eps _ sg hs ht]
  simp only []
  rw [polyK_neg, polyK_mul, polyK_smul, ← Vec3.norm_sq, hs2, hc2, hc1, Real.exp_neg]
  have eA := ws4_identA (Real.exp sg) (Real.sin phi.norm) (Real.cos phi.norm) phi.norm sg hE hθ hσ hcc hsc
  have eB := ws4_identB (Real.exp sg) (Real.sin phi.norm) (Real.cos phi.norm) phi.norm sg hE hθ hσ hcc hsc
  have eC := ws4_identC (Real.exp sg) sg hE hσ
  congr 1
  · linear_combination eC
  · linear_combination eA
  · linear_combination eB


theorem ws2_identA (s c θ : ℝ) (hθ : θ ≠ 0) (hsc : s ^ 2 + c ^ 2 = 1) :
    -((1 - c) * (1 / (θ * θ))) =
      (1 - c) * (1 / (θ * θ)) + -(s / θ) * 1 -
        θ * θ * (-(s / θ) * ((θ - s) / (θ * θ * θ)) + (1 - c) / (θ * θ) * ((1 - c) * (1 / (θ * θ)))) := by
  field_simp
  linear_combination (1 : ℝ) * hsc

theorem ws2_identB (s c θ : ℝ) (hθ : θ ≠ 0) (hsc : s ^ 2 + c ^ 2 = 1) :
    (θ - s) / (θ * θ * θ) =
      (θ - s) / (θ * θ * θ) + (1 - c) / (θ * θ) * 1 + -(s / θ) * ((1 - c) * (1 / (θ * θ))) -
        θ * θ * ((1 - c) / (θ * θ) * ((θ - s) / (θ * θ * θ))) := by
  field_simp
  linear_combination (0 : ℝ) * hsc
/-- regime 2 with `σ = 0` exactly: `W(−φ,0) = R(φ)ᵀ·W(φ,0)` -/
theorem rxso3Ws_neg_r2 (eps : ℝ) (phi : Vec3 ℝ) (h0 : 0 ≤ eps) (ht : eps < phi.norm) :
    rxso3Ws eps ⟨phi.neg, 0⟩ =
      (polyK 1 (-(2 * Real.cos (phi.norm / 2) * (Real.sin (phi.norm / 2) / phi.norm)))
        (2 * (Real.sin (phi.norm / 2) / phi.norm) * (Real.sin (phi.norm / 2) / phi.norm)) phi).mul
        (rxso3Ws eps ⟨phi, 0⟩) := by
  have hθ : phi.norm ≠ 0 := ne_of_gt (lt_of_le_of_lt h0 ht)
  have hsc := Real.sin_sq_add_cos_sq phi.norm
  have hs0 : ¬ eps < |(0 : ℝ)| := by rw [abs_zero]; exact not_lt.mpr h0
  have hs2 : 2 * Real.cos (phi.norm / 2) * (Real.sin (phi.norm / 2) / phi.norm) = Real.sin phi.norm / phi.norm := by
    have := Real.sin_two_mul (phi.norm / 2)
    rw [show 2 * (phi.norm / 2) = phi.norm by ring] at this
    rw [this]; ring
  have hc1 : 2 * (Real.sin (phi.norm / 2) * Real.sin (phi.norm / 2)) = 1 - Real.cos phi.norm := by
    have := Real.cos_two_mul (phi.norm / 2)
    have h1 := Real.sin_sq_add_cos_sq (phi.norm / 2)
    rw [show 2 * (phi.norm / 2) = phi.norm by ring] at this
    nlinarith
  have hc2 : 2 * (Real.sin (phi.norm / 2) / phi.norm) * (Real.sin (phi.norm / 2) / phi.norm)
      = (1 - Real.cos phi.norm) / (phi.norm * phi.norm) := by
    rw [← hc1]; field_simp
  rw [rxso3Ws_eq, rxso3Ws_eq]
  simp only []
  rw [Vec3.norm_neg, rxso3WsCoef_r2 eps _ 0 hs0 ht]
  simp only []
  rw [polyK_neg, polyK_mul, ← Vec3.norm_sq, hs2, hc2]
  have eA := ws2_identA (Real.sin phi.norm) (Real.cos phi.norm) phi.norm hθ hsc
  have eB := ws2_identB (Real.sin phi.norm) (Real.cos phi.norm) phi.norm hθ hsc
  congr 1
  · ring
  · linear_combination eA
  · linear_combination eB

/-- `Exp(x)⁻¹` acts as the Rodrigues polynomial `1 − (sin θ/θ)K + ((1−cos θ)/θ²)K²` (half-angle form) -/
theorem so3Exp_conj_act (eps : ℝ) (x : Vec3 ℝ) (h : eps < x.norm) (p : Vec3 ℝ) :
    (so3Exp eps x).conj.act p =
      (polyK 1 (-(2 * Real.cos (x.norm / 2) * (Real.sin (x.norm / 2) / x.norm)))
        (2 * (Real.sin (x.norm / 2) / x.norm) * (Real.sin (x.norm / 2) / x.norm)) x).mulVec p := by
  rw [so3Exp_closed eps x h, Quat.conj_mk', ← Vec3.neg_smul, Quat.mk'_act, polyK_neg]

/-! ## zero rotation -/

theorem Vec3.zero_smul (c : ℝ) : (Vec3.zero : Vec3 ℝ).smul c = Vec3.zero := by ext <;> lie_unfold <;> ring
theorem Vec3.zero_norm : (Vec3.zero : Vec3 ℝ).norm = 0 := by
  unfold Vec3.norm Vec3.normSq Vec3.zero; simp
theorem polyK_zero (a b c : ℝ) : polyK a b c (Vec3.zero : Vec3 ℝ) = Mat3.smul a Mat3.one := by
  unfold polyK; ext <;> lie_unfold <;> ring
theorem Mat3.smul_one_mulVec (a : ℝ) (v : Vec3 ℝ) : (Mat3.smul a Mat3.one).mulVec v = v.smul a := by
  ext <;> lie_unfold <;> ring

theorem so3Exp_zero (eps : ℝ) (h0 : 0 ≤ eps) : so3Exp eps (Vec3.zero : Vec3 ℝ) = Quat.one := by
  rw [so3Exp_taylor eps _ (by rw [Vec3.zero_norm]; exact not_lt.mpr h0)]
  ext <;> lie_unfold <;> simp

theorem SO3Log_one (eps : ℝ) : SO3Log eps (Quat.one : Quat ℝ) = Vec3.zero := by
  unfold SO3Log
  have : (Quat.one : Quat ℝ).vec = Vec3.zero := by ext <;> lie_unfold
  rw [this, Vec3.zero_smul]


/-! ## batches and call histories (model side of the hardening classes "item-wise = batched", "no state between calls") -/

/-- a batch is a list of items and a batched op is the item op mapped over it (broadcasting itself is C06) -/
def batchOp {β γ : Type} (f : β → γ) (xs : List β) : List γ := xs.map f
/-- a call history on one process: every call brings its own threshold `eps` (its dtype) and its own argument -/
def runCalls {β γ : Type} (f : ℝ → β → γ) (calls : List (ℝ × β)) : List γ := calls.map (fun c => f c.1 c.2)


/-! ## cancellation -/

theorem Vec3.smul_cancel {c : ℝ} (hc : c ≠ 0) {x y : Vec3 ℝ} (h : x.smul c = y.smul c) : x = y := by
  have hx := congrArg Vec3.x h; have hy := congrArg Vec3.y h; have hz := congrArg Vec3.z h
  simp only [Vec3.smul] at hx hy hz
  ext
  · exact mul_left_cancel₀ hc hx
  · exact mul_left_cancel₀ hc hy
  · exact mul_left_cancel₀ hc hz

theorem Mat3.mulVec_cancel (m : Mat3 ℝ) (h : m.det ≠ 0) {u v : Vec3 ℝ} (e : m.mulVec u = m.mulVec v) : u = v := by
  rw [← Mat3.inv_mulVec_mulVec m h u, ← Mat3.inv_mulVec_mulVec m h v, e]


/-! ## the one-parameter subgroup through `v`; Taylor branch of `Exp` against the closed form; regime 3 of `Log` then `Exp` -/



/-- closed-form `Exp` along a fixed direction: for `x = c·v` (any sign of `c`) the result is `(v·sin(c‖v‖/2)/‖v‖, cos(c‖v‖/2))` -/
theorem so3Exp_closed_dir (eps : ℝ) (v : Vec3 ℝ) (c : ℝ) (h0 : 0 ≤ eps) (h : eps < (v.smul c).norm) :
    so3Exp eps (v.smul c) =
      Quat.mk' (v.smul (Real.sin (c * v.norm / 2) / v.norm)) (Real.cos (c * v.norm / 2)) := by
  have hn : (v.smul c).norm = |c| * v.norm := Vec3.norm_smul c v
  have hpos : 0 < |c| * v.norm := by rw [← hn]; exact lt_of_le_of_lt h0 h
  have hv0 : 0 < v.norm := by
    rcases (Vec3.norm_nonneg v).lt_or_eq with h' | h'
    · exact h'
    · rw [← h'] at hpos; simp at hpos
  have hc0 : c ≠ 0 := by intro hc; rw [hc] at hpos; simp at hpos
  rw [so3Exp_closed eps _ h, hn, Vec3.smul_smul]
  rcases lt_or_gt_of_ne hc0 with hc | hc
  · rw [abs_of_neg hc]
    have e1 : -c * v.norm / 2 = -(c * v.norm / 2) := by ring
    rw [e1, Real.sin_neg, Real.cos_neg]
    congr 2
    field_simp
  · rw [abs_of_pos hc]
    congr 2
    field_simp

/-- two points of the one-parameter subgroup through `v`: their squared distance is `2 − 2cos(a−b) ≤ (a−b)²` -/
theorem distSq_dir_le (v : Vec3 ℝ) (hv : 0 < v.norm) (a b : ℝ) :
    Quat.distSq (Quat.mk' (v.smul (Real.sin a / v.norm)) (Real.cos a))
      (Quat.mk' (v.smul (Real.sin b / v.norm)) (Real.cos b)) ≤ (a - b) ^ 2 := by
  have hn : v.x * v.x + v.y * v.y + v.z * v.z = v.norm * v.norm := by rw [Vec3.norm_sq]; rfl
  have hn0 : v.norm ≠ 0 := ne_of_gt hv
  have key : Quat.distSq (Quat.mk' (v.smul (Real.sin a / v.norm)) (Real.cos a))
      (Quat.mk' (v.smul (Real.sin b / v.norm)) (Real.cos b))
      = (Real.sin a - Real.sin b) ^ 2 + (Real.cos a - Real.cos b) ^ 2 := by
    unfold Quat.distSq
    simp only [Quat.mk', Vec3.smul]
    have : (Real.sin a / v.norm * v.x - Real.sin b / v.norm * v.x) ^ 2 +
        (Real.sin a / v.norm * v.y - Real.sin b / v.norm * v.y) ^ 2 +
        (Real.sin a / v.norm * v.z - Real.sin b / v.norm * v.z) ^ 2
        = (Real.sin a - Real.sin b) ^ 2 * ((v.x * v.x + v.y * v.y + v.z * v.z) / (v.norm * v.norm)) := by
      field_simp
    rw [this, hn, div_self (mul_ne_zero hn0 hn0), mul_one]
  rw [key]
  have h1 := Real.sin_sq_add_cos_sq a
  have h2 := Real.sin_sq_add_cos_sq b
  have h3 := Real.cos_sub a b
  have h4 := Real.one_sub_sq_div_two_le_cos (x := a - b)
  nlinarith
/-- `sign(w)·q` written on the one-parameter subgroup through `v`: angle `atan(‖v‖/w)` -/
theorem scale_eq_dir (q : Quat ℝ) (hq : q.normSq = 1) (hv : 0 < q.vec.norm) (hw : q.w ≠ 0) :
    Quat.scale (|q.w| / q.w) q =
      Quat.mk' (q.vec.smul (Real.sin (Real.arctan (q.vec.norm / q.w)) / q.vec.norm))
        (Real.cos (Real.arctan (q.vec.norm / q.w))) := by
  have hu := unit_parts q hq
  rw [sin_arctan_div hw hu, cos_arctan_div hw hu]
  unfold Quat.scale
  have hn0 : q.vec.norm ≠ 0 := ne_of_gt hv
  generalize q.vec.norm = n at hn0 ⊢
  ext <;> simp only [Quat.mk', Quat.vec, Vec3.smul] <;> field_simp

/-- the closed form of `so3_Exp` as a function on all of ℝ³ (the code uses it for `‖x‖ > eps`) -/
noncomputable def expClosed (x : Vec3 ℝ) : Quat ℝ :=
  Quat.mk' (x.smul (Real.sin (x.norm / 2) / x.norm)) (Real.cos (x.norm / 2))

theorem so3Exp_eq_expClosed (eps : ℝ) (x : Vec3 ℝ) (h : eps < x.norm) : so3Exp eps x = expClosed x :=
  so3Exp_closed eps x h

theorem expClosed_dir (v : Vec3 ℝ) (c : ℝ) (hv0 : 0 < v.norm) (hc0 : c ≠ 0) :
    expClosed (v.smul c) = Quat.mk' (v.smul (Real.sin (c * v.norm / 2) / v.norm)) (Real.cos (c * v.norm / 2)) := by
  have hn : (v.smul c).norm = |c| * v.norm := Vec3.norm_smul c v
  unfold expClosed
  rw [hn, Vec3.smul_smul]
  rcases lt_or_gt_of_ne hc0 with hc | hc
  · rw [abs_of_neg hc]
    have e1 : -c * v.norm / 2 = -(c * v.norm / 2) := by ring
    rw [e1, Real.sin_neg, Real.cos_neg]
    congr 2
    field_simp
  · rw [abs_of_pos hc]
    congr 2
    field_simp

/-- Taylor branch of `so3_Exp` against the closed form: `‖·‖² ≤ (θ/2)⁸/50` for `0 < θ ≤ 1` -/
theorem so3Exp_taylor_near_closed (eps : ℝ) (x : Vec3 ℝ) (h : ¬ eps < x.norm) (hx : 0 < x.norm) (h1 : x.norm ≤ 1) :
    Quat.distSq (so3Exp eps x) (expClosed x) ≤ (x.norm / 2) ^ 8 / 50 := by
  have hn : x.x * x.x + x.y * x.y + x.z * x.z = x.norm * x.norm := by rw [Vec3.norm_sq]; rfl
  have hns : x.normSq = x.norm * x.norm := (Vec3.norm_sq x).symm
  rw [so3Exp_taylor eps x h]
  unfold expClosed Quat.distSq
  simp only [Quat.mk', Vec3.smul]
  rw [hns]
  generalize x.norm = θ at *
  have hθ0 : θ ≠ 0 := ne_of_gt hx
  obtain ⟨u, hu⟩ : ∃ u, u = θ / 2 := ⟨_, rfl⟩
  have hθu : θ = 2 * u := by linarith
  have hu0 : 0 < u := by linarith
  have hu1 : u ≤ 1 / 2 := by linarith
  have hsb := Real.sin_bound (x := u) (by rw [abs_of_pos hu0]; linarith)
  have hcb := Real.cos_bound (x := u) (by rw [abs_of_pos hu0]; linarith)
  rw [abs_of_pos hu0] at hsb hcb
  rw [← hu]
  have e : ((1 / 2 - 1 / 48 * (θ * θ) + 1 / 3840 * (θ * θ * (θ * θ))) * x.x - Real.sin u / θ * x.x) ^ 2 +
      ((1 / 2 - 1 / 48 * (θ * θ) + 1 / 3840 * (θ * θ * (θ * θ))) * x.y - Real.sin u / θ * x.y) ^ 2 +
      ((1 / 2 - 1 / 48 * (θ * θ) + 1 / 3840 * (θ * θ * (θ * θ))) * x.z - Real.sin u / θ * x.z) ^ 2
      = ((u - u ^ 3 / 6 + u ^ 5 / 120) - Real.sin u) ^ 2 * ((x.x * x.x + x.y * x.y + x.z * x.z) / (θ * θ)) := by
    rw [hθu]; field_simp; ring
  rw [e, hn, div_self (mul_ne_zero hθ0 hθ0), mul_one]
  have e2 : 1 - 1 / 8 * (θ * θ) + 1 / 384 * (θ * θ * (θ * θ)) = 1 - u ^ 2 / 2 + u ^ 4 / 24 := by rw [hθu]; ring
  rw [e2]
  have hs' : |u - u ^ 3 / 6 + u ^ 5 / 120 - Real.sin u| ≤ u ^ 5 / 50 := by
    have : u - u ^ 3 / 6 + u ^ 5 / 120 - Real.sin u = -(Real.sin u - (u - u ^ 3 / 6)) + u ^ 5 / 120 := by ring
    rw [this]
    have h5 : 0 ≤ u ^ 5 := by positivity
    calc |-(Real.sin u - (u - u ^ 3 / 6)) + u ^ 5 / 120| ≤ |-(Real.sin u - (u - u ^ 3 / 6))| + |u ^ 5 / 120| := abs_add_le _ _
      _ ≤ u ^ 5 / 100 + u ^ 5 / 120 := by rw [abs_neg, abs_of_nonneg (by positivity : 0 ≤ u ^ 5 / 120)]; linarith
      _ ≤ u ^ 5 / 50 := by linarith
  have hc' : |1 - u ^ 2 / 2 + u ^ 4 / 24 - Real.cos u| ≤ u ^ 4 / 10 := by
    have : 1 - u ^ 2 / 2 + u ^ 4 / 24 - Real.cos u = -(Real.cos u - (1 - u ^ 2 / 2)) + u ^ 4 / 24 := by ring
    rw [this]
    have h4 : 0 ≤ u ^ 4 := by positivity
    calc |-(Real.cos u - (1 - u ^ 2 / 2)) + u ^ 4 / 24| ≤ |-(Real.cos u - (1 - u ^ 2 / 2))| + |u ^ 4 / 24| := abs_add_le _ _
      _ ≤ u ^ 4 * (5 / 96) + u ^ 4 / 24 := by rw [abs_neg, abs_of_nonneg (by positivity : 0 ≤ u ^ 4 / 24)]; linarith
      _ ≤ u ^ 4 / 10 := by linarith
  have s1 : (u - u ^ 3 / 6 + u ^ 5 / 120 - Real.sin u) ^ 2 ≤ (u ^ 5 / 50) ^ 2 := sq_le_sq' (by linarith [neg_abs_le (u - u ^ 3 / 6 + u ^ 5 / 120 - Real.sin u)]) (le_trans (le_abs_self _) hs')
  have s2 : (1 - u ^ 2 / 2 + u ^ 4 / 24 - Real.cos u) ^ 2 ≤ (u ^ 4 / 10) ^ 2 := sq_le_sq' (by linarith [neg_abs_le (1 - u ^ 2 / 2 + u ^ 4 / 24 - Real.cos u)]) (le_trans (le_abs_self _) hc')
  have hu8 : 0 ≤ u ^ 8 := by positivity
  have hu10 : u ^ 10 ≤ u ^ 8 := by
    have : u ^ 10 = u ^ 8 * u ^ 2 := by ring
    rw [this]
    have hu2 : u ^ 2 ≤ 1 := by nlinarith
    exact mul_le_of_le_one_right hu8 hu2
  have e3 : (u ^ 5 / 50) ^ 2 = u ^ 10 / 2500 := by ring
  have e4 : (u ^ 4 / 10) ^ 2 = u ^ 8 / 100 := by ring
  rw [e3] at s1; rw [e4] at s2
  linarith


theorem Quat.distSq_triangle (a b c : Quat ℝ) : Quat.distSq a c ≤ 2 * Quat.distSq a b + 2 * Quat.distSq b c := by
  unfold Quat.distSq
  nlinarith [sq_nonneg (a.x - b.x - (b.x - c.x)), sq_nonneg (a.y - b.y - (b.y - c.y)), sq_nonneg (a.z - b.z - (b.z - c.z)),
    sq_nonneg (a.w - b.w - (b.w - c.w))]

theorem Quat.distSq_self (a : Quat ℝ) : Quat.distSq a a = 0 := by unfold Quat.distSq; ring

/-- the closed form of `Exp` applied to the regime-3 logarithm -/
theorem expClosed_log3_dist (eps : ℝ) (q : Quat ℝ) (hq : q.normSq = 1) (he : eps ≤ 1 / 2)
    (h1 : ¬ eps < q.vec.norm) (hv : 0 < q.vec.norm) :
    Quat.distSq (expClosed (SO3Log eps q)) (Quat.scale (|q.w| / q.w) q) ≤ (q.vec.norm ^ 5 / (5 * |q.w| ^ 5)) ^ 2 := by
  have hu := unit_parts q hq
  have hn2 : q.vec.norm ≤ 1 / 2 := by linarith [not_lt.mp h1]
  have hw2 : 3 / 4 ≤ q.w * q.w := by nlinarith
  have hw : q.w ≠ 0 := by intro h; rw [h] at hw2; norm_num at hw2
  have hwa : 0 < |q.w| := abs_pos.mpr hw
  have hL : SO3Log eps q = q.vec.smul (so3LogFactor eps q.vec.norm q.w) := rfl
  have hf : so3LogFactor eps q.vec.norm q.w ≠ 0 := by
    rw [so3LogFactor_r3 _ _ _ h1]
    have e : 2 * (1 / q.w - q.vec.norm * q.vec.norm / (3 * (q.w * q.w * q.w)))
        = 2 * (3 * (q.w * q.w) - q.vec.norm * q.vec.norm) / (3 * (q.w * q.w * q.w)) := by field_simp
    rw [e]
    apply div_ne_zero
    · have : 0 < 3 * (q.w * q.w) - q.vec.norm * q.vec.norm := by nlinarith
      positivity
    · exact mul_ne_zero (by norm_num) (mul_ne_zero (mul_ne_zero hw hw) hw)
  rw [hL, expClosed_dir q.vec _ hv hf, scale_eq_dir q hq hv hw]
  refine le_trans (distSq_dir_le q.vec hv _ _) ?_
  have herr := so3LogFactor_r3_error eps q.vec.norm q.w h1 hv hw
  have e : so3LogFactor eps q.vec.norm q.w * q.vec.norm / 2 - Real.arctan (q.vec.norm / q.w)
      = (q.vec.norm / 2) * (so3LogFactor eps q.vec.norm q.w - 2 * Real.arctan (q.vec.norm / q.w) / q.vec.norm) := by
    field_simp
  have e2 : q.vec.norm / 2 * (2 * q.vec.norm ^ 4 / (5 * |q.w| ^ 5)) = q.vec.norm ^ 5 / (5 * |q.w| ^ 5) := by
    field_simp
  have h2 : 0 ≤ q.vec.norm / 2 := by positivity
  rw [e]
  apply sq_le_sq'
  · have := neg_abs_le (so3LogFactor eps q.vec.norm q.w - 2 * Real.arctan (q.vec.norm / q.w) / q.vec.norm)
    rw [← e2]; nlinarith
  · have := le_abs_self (so3LogFactor eps q.vec.norm q.w - 2 * Real.arctan (q.vec.norm / q.w) / q.vec.norm)
    rw [← e2]; nlinarith

/-- `(‖v‖⁵/(5|w|⁵))² ≤ ‖v‖¹⁰` for a unit quaternion with `‖v‖ ≤ 1/4` -/
theorem r3_bound_le (q : Quat ℝ) (hq : q.normSq = 1) (hn : q.vec.norm ≤ 1 / 4) :
    (q.vec.norm ^ 5 / (5 * |q.w| ^ 5)) ^ 2 ≤ q.vec.norm ^ 10 := by
  have hu := unit_parts q hq
  have hn0 := Vec3.norm_nonneg q.vec
  have hw2 : 15 / 16 ≤ |q.w| * |q.w| := by rw [abs_mul_abs_self]; nlinarith
  have hwa0 := abs_nonneg q.w
  have hw1 : |q.w| ≤ 1 := by nlinarith [abs_mul_abs_self q.w]
  have hwl : 15 / 16 ≤ |q.w| := by nlinarith
  have hw5 : (1 : ℝ) ≤ 5 * |q.w| ^ 5 := by
    have h2 : (15 / 16 : ℝ) ^ 5 ≤ |q.w| ^ 5 := pow_le_pow_left₀ (by norm_num) hwl 5
    have : (1 : ℝ) / 5 ≤ (15 / 16 : ℝ) ^ 5 := by norm_num
    linarith
  have hpos : 0 < 5 * |q.w| ^ 5 := by linarith
  rw [div_pow, div_le_iff₀ (by positivity)]
  have e : (q.vec.norm ^ 5) ^ 2 = q.vec.norm ^ 10 := by ring
  rw [e]
  have h10 : 0 ≤ q.vec.norm ^ 10 := by positivity
  have : (1 : ℝ) ≤ (5 * |q.w| ^ 5) ^ 2 := by nlinarith
  nlinarith


/-! ## perturbation of a point by a near-identity unit quaternion (backward form of `Log (X⁻¹) = −Log X`) -/

/-- a unit quaternion moves a point by at most `2‖vec r‖·‖t‖`: `‖r·t − t‖² = 4(‖u‖²‖t‖² − (u·t)²)` -/
theorem Quat.act_sub_normSq (r : Quat ℝ) (hr : r.normSq = 1) (t : Vec3 ℝ) :
    ((r.act t).sub t).normSq = 4 * (r.vec.normSq * t.normSq - (r.vec.dot t) ^ 2) := by
  have h' : r.x * r.x + r.y * r.y + r.z * r.z + r.w * r.w = 1 := hr
  lie_unfold
  linear_combination (4 * ((r.x * r.x + r.y * r.y + r.z * r.z) * (t.x * t.x + t.y * t.y + t.z * t.z)
    - (r.x * t.x + r.y * t.y + r.z * t.z) ^ 2)) * h'

theorem Quat.act_sub_normSq_le (r : Quat ℝ) (hr : r.normSq = 1) (t : Vec3 ℝ) :
    ((r.act t).sub t).normSq ≤ 4 * r.vec.normSq * t.normSq := by
  rw [Quat.act_sub_normSq r hr t]
  nlinarith [sq_nonneg (r.vec.dot t)]

/-- vector part of `E·q*` when `E` is close to `s·q` (`s = ±1`, `q` unit): `‖vec(E q*)‖² ≤ ‖E − s q‖²` -/
theorem Quat.vec_mul_conj_le (E q : Quat ℝ) (hq : q.normSq = 1) (s : ℝ) :
    (E.mul q.conj).vec.normSq ≤ Quat.distSq E (Quat.scale s q) := by
  have h' : q.x * q.x + q.y * q.y + q.z * q.z + q.w * q.w = 1 := hq
  -- E q* = s·(q q*) + (E − s q) q*, and vec(q q*) = 0
  have key : (E.mul q.conj).vec.normSq + ((E.mul q.conj).w - s) ^ 2 = Quat.distSq E (Quat.scale s q) := by
    unfold Quat.distSq Quat.scale
    lie_unfold
    linear_combination (E.x ^ 2 + E.y ^ 2 + E.z ^ 2 + E.w ^ 2 - s ^ 2) * h'
  nlinarith [sq_nonneg ((E.mul q.conj).w - s)]
/-- `Jl⁻¹(−x)·u = Jl⁻¹(x)·(Exp(x)·u)` on the closed-form branch -/
theorem so3JlInv_neg_mulVec (eps : ℝ) (x : Vec3 ℝ) (h0 : 0 ≤ eps) (h : eps < x.norm)
    (hS : Real.sin (x.norm / 2) ≠ 0) (u : Vec3 ℝ) :
    (so3JlInv eps x.neg).mulVec u = (so3JlInv eps x).mulVec ((so3Exp eps x).act u) := by
  have hE : (so3Exp eps x).normSq = 1 := so3Exp_normSq_closed eps x h0 h
  have := so3JlInv_neg_conj_act eps x h0 h hS ((so3Exp eps x).act u)
  rw [Quat.conj_act_act _ hE] at this
  exact this


/-! ## cross products, `polyK·t − t` -/

theorem Vec3.cross_normSq_le (a b : Vec3 ℝ) : (a.cross b).normSq ≤ a.normSq * b.normSq := by
  have : a.normSq * b.normSq - (a.cross b).normSq = (a.dot b) ^ 2 := by lie_unfold; ring
  nlinarith [sq_nonneg (a.dot b)]
theorem hat_mulVec (x t : Vec3 ℝ) : (Mat3.hat x).mulVec t = x.cross t := by ext <;> lie_unfold <;> ring
theorem polyK_mulVec_sub (a b : ℝ) (x t : Vec3 ℝ) :
    ((polyK 1 a b x).mulVec t).sub t = ((x.cross t).smul a).add ((x.cross (x.cross t)).smul b) := by
  unfold polyK; ext <;> lie_unfold <;> ring
theorem Vec3.add_normSq_le (u w : Vec3 ℝ) : (u.add w).normSq ≤ 2 * u.normSq + 2 * w.normSq := by
  lie_unfold
  nlinarith [sq_nonneg (u.x - w.x), sq_nonneg (u.y - w.y), sq_nonneg (u.z - w.z)]


/-! ## facts about `List.map` used as the model of batching / call histories (hold for any `f`; moved out of the property file) -/

/-- the result for an item does not depend on the other items of the batch (whatever their regimes) -/
theorem batch_itemwise {β γ : Type} (f : β → γ) (pre post : List β) (x : β) :
    (batchOp f (pre ++ x :: post))[pre.length]? = some (f x) := by
  unfold batchOp
  simp

/-- a batched op returns one result per item -/
theorem batch_length {β γ : Type} (f : β → γ) (xs : List β) : (batchOp f xs).length = xs.length := by
  unfold batchOp; simp

/-- the result of a call does not depend on the calls made before or after it — including calls with another `eps`
(another dtype) -/
theorem calls_history_independent {β γ : Type} (f : ℝ → β → γ) (pre post : List (ℝ × β)) (eps : ℝ) (x : β) :
    (runCalls f (pre ++ (eps, x) :: post))[pre.length]? = some (f eps x) := by
  unfold runCalls
  simp

/-- instances for the property's maps: `Log` of an item inside any (mixed-regime) batch is `Log` of the item -/
theorem Sim3_log_batch_itemwise (eps : ℝ) (pre post : List (Sim3 ℝ)) (X : Sim3 ℝ) :
    (batchOp (Sim3Log eps) (pre ++ X :: post))[pre.length]? = some (Sim3Log eps X) := batch_itemwise _ pre post X
theorem sim3_exp_log_history_independent (pre post : List (ℝ × sim3 ℝ)) (eps : ℝ) (x : sim3 ℝ) :
    (runCalls sim3LogExp (pre ++ (eps, x) :: post))[pre.length]? = some (sim3LogExp eps x) :=
  calls_history_independent _ pre post eps x

/-- atomicity of a refused call: in a history where some calls fail (`Except.error`, e.g. `Log` of an algebra element), every
other call returns what it returns in the history without the failed ones — instance of `calls_history_independent` with
`Except` results (the model has no state a failing call could leave behind; the code is tested by the oracle `atomic`). -/
theorem calls_atomic_on_error {β γ : Type} (f : ℝ → β → Except String γ) (pre post : List (ℝ × β)) (bad : ℝ × β)
    (eps : ℝ) (x : β) :
    (runCalls f (pre ++ bad :: (eps, x) :: post))[pre.length + 1]? = (runCalls f (pre ++ (eps, x) :: post))[pre.length]? := by
  unfold runCalls
  simp


/-- summary of what was proved for regime 3 before `SO3_exp_log_regime3` (kept for reference; superseded) -/
theorem SO3Log_r3_summary (eps : ℝ) (q : Quat ℝ) (hq : q.normSq = 1) (he : eps ≤ 1 / 2)
    (h1 : ¬ eps < q.vec.norm) : (SO3Log eps q).norm ≤ 2 := SO3Log_r3_norm_le eps q hq he h1

/-! ## `Jl⁻¹_T((1+δ)φ)·Jl_T(φ)` (pass 7: translation block of `Log ∘ Exp` on se3 near 0) -/

theorem polyK_smul_arg (a b c s : ℝ) (x : Vec3 ℝ) : polyK a b c (x.smul s) = polyK a (b * s) (c * (s * s)) x := by
  unfold polyK; ext <;> lie_unfold <;> ring
/-- coefficient bounds of `Jl⁻¹_T((1+δ)φ)·Jl_T(φ) = 1 + B·K + C·K²` for `−n²/50 ≤ δ ≤ 0`, `0 ≤ n ≤ 1` -/
theorem jl_taylor_pert_coefs (n δ : ℝ) (hn0 : 0 ≤ n) (hn1 : n ≤ 1) (hd0 : δ ≤ 0) (hd1 : -(n ^ 2 / 50) ≤ δ) :
    |1 * (1 / 2 - 1 / 24 * n) + -(1 / 2) * (1 + δ) * 1 -
        n * (-(1 / 2) * (1 + δ) * (1 / 6 - 1 / 120 * n) + 1 / 12 * ((1 + δ) * (1 + δ)) * (1 / 2 - 1 / 24 * n))| ≤ n ^ 2 / 40 ∧
    |1 * (1 / 6 - 1 / 120 * n) + 1 / 12 * ((1 + δ) * (1 + δ)) * 1 + -(1 / 2) * (1 + δ) * (1 / 2 - 1 / 24 * n) -
        n * (1 / 12 * ((1 + δ) * (1 + δ)) * (1 / 6 - 1 / 120 * n))| ≤ n / 200 := by
  obtain ⟨d, hd⟩ : ∃ d, d = -δ := ⟨_, rfl⟩
  have hδ : δ = -d := by linarith
  subst hδ
  have hd0' : 0 ≤ d := by linarith
  have hd1' : d ≤ n ^ 2 / 50 := by linarith
  have hn2 : n ^ 2 ≤ n := by nlinarith
  have hd2 : d ≤ 1 / 50 := by nlinarith
  have hdd : d * d ≤ d / 50 := by nlinarith
  have hnd : 0 ≤ n * d := mul_nonneg hn0 hd0'
  have hnd1 : n * d ≤ d := by nlinarith
  have hn2d : 0 ≤ n ^ 2 * d := mul_nonneg (by positivity) hd0'
  have hndd : 0 ≤ n * (d * d) := mul_nonneg hn0 (mul_self_nonneg d)
  have hndd1 : n * (d * d) ≤ d / 50 := by nlinarith
  have hn2dd : 0 ≤ n ^ 2 * (d * d) := mul_nonneg (by positivity) (mul_self_nonneg d)
  have hn2d1 : n ^ 2 * d ≤ d := by nlinarith
  have hn2dd1 : n ^ 2 * (d * d) ≤ d / 50 := by nlinarith
  constructor
  · rw [abs_le]
    constructor <;> nlinarith
  · rw [abs_le]
    constructor <;> nlinarith

/-! ## pass 10: `W((1+δ)φ,σ)⁻¹·W(φ,σ)` for `θ ≤ eps` (translation block of `Log ∘ Exp` on sim3 near 0) -/


theorem polyK_mulVec_eq (C a b : ℝ) (x t : Vec3 ℝ) :
    (polyK C a b x).mulVec t = ((t.smul C).add ((x.cross t).smul a)).add ((x.cross (x.cross t)).smul b) := by
  unfold polyK; ext <;> lie_unfold <;> ring

/-- `‖(C + aK + bK²) z‖² = C²‖z‖² + (a² − 2Cb)‖x×z‖² + b²‖x×(x×z)‖²` (K antisymmetric) -/
theorem polyK_mulVec_normSq (C a b : ℝ) (x z : Vec3 ℝ) :
    ((polyK C a b x).mulVec z).normSq =
      C ^ 2 * z.normSq + (a ^ 2 - 2 * C * b) * (x.cross z).normSq + b ^ 2 * (x.cross (x.cross z)).normSq := by
  unfold polyK; lie_unfold; ring

theorem Mat3.mulVec_sub (A : Mat3 ℝ) (u v : Vec3 ℝ) : A.mulVec (u.sub v) = (A.mulVec u).sub (A.mulVec v) := by
  ext <;> lie_unfold <;> ring

theorem polyK_sub_mulVec (C a b a' b' : ℝ) (x t : Vec3 ℝ) :
    ((polyK C a b x).mulVec t).sub ((polyK C a' b' x).mulVec t) =
      ((x.cross t).smul (a - a')).add ((x.cross (x.cross t)).smul (b - b')) := by
  unfold polyK; ext <;> lie_unfold <;> ring

/-- for `θ ≤ eps` the coefficients of `rxso3_Ws` do not depend on `θ` (regimes 1 and 3) -/
theorem rxso3WsCoef_small_indep (eps t1 t2 sg : ℝ) (h1 : ¬ eps < t1) (h2 : ¬ eps < t2) :
    rxso3WsCoef eps t1 sg = rxso3WsCoef eps t2 sg := by
  by_cases hs : eps < |sg|
  · rw [rxso3WsCoef_r3 eps t1 sg hs h1, rxso3WsCoef_r3 eps t2 sg hs h2]
  · rw [rxso3WsCoef_r1 eps t1 sg hs h1, rxso3WsCoef_r1 eps t2 sg hs h2]
theorem ws_low (C B cc a Q1 Q2 Z n : ℝ) (hcc0 : 0 ≤ cc) (hcc1 : cc ≤ 1) (hQ1 : 0 ≤ Q1) (hQ1n : Q1 ≤ n * Z) (hQ2 : 0 ≤ Q2)
    (hZ : 0 ≤ Z) (hn : n ≤ 1 / 4) (hCB : C * B ≤ C ^ 2) :
    C ^ 2 * Z / 2 ≤ C ^ 2 * Z + (a ^ 2 - 2 * C * (B * cc)) * Q1 + (B * cc) ^ 2 * Q2 := by
  have hC2 : 0 ≤ C ^ 2 := sq_nonneg C
  have t1 : 0 ≤ a ^ 2 * Q1 := mul_nonneg (sq_nonneg a) hQ1
  have t2 : 0 ≤ (B * cc) ^ 2 * Q2 := mul_nonneg (sq_nonneg _) hQ2
  have h1 : C * B * cc ≤ C ^ 2 := by
    rcases le_or_gt 0 (C * B) with hp | hp
    · have := mul_le_mul_of_nonneg_left hcc1 hp
      linarith only [this, hCB]
    · have : C * B * cc ≤ 0 := mul_nonpos_of_nonpos_of_nonneg (le_of_lt hp) hcc0
      linarith only [this, hC2]
  have h2 : C * B * cc * Q1 ≤ C ^ 2 * Q1 := mul_le_mul_of_nonneg_right h1 hQ1
  have h3 : C ^ 2 * Q1 ≤ C ^ 2 * (n * Z) := mul_le_mul_of_nonneg_left hQ1n hC2
  have h4 : n * Z ≤ 1 / 4 * Z := mul_le_mul_of_nonneg_right hn hZ
  have h5 : C ^ 2 * (n * Z) ≤ C ^ 2 * (1 / 4 * Z) := mul_le_mul_of_nonneg_left h4 hC2
  have e : (a ^ 2 - 2 * C * (B * cc)) * Q1 = a ^ 2 * Q1 - 2 * (C * B * cc * Q1) := by ring
  rw [e]
  linarith only [t1, t2, h2, h3, h5]

theorem ws_up (C A B d P1 P2 n T : ℝ) (hA2 : A ^ 2 ≤ C ^ 2) (hB2 : B ^ 2 ≤ C ^ 2) (hd0 : 0 ≤ d) (hd1 : d ≤ 1)
    (hP1 : 0 ≤ P1) (hP1n : P1 ≤ n * T) (hP2 : 0 ≤ P2) (hP2n : P2 ≤ n * P1) (hn0 : 0 ≤ n) (hn : n ≤ 1 / 4) (hT : 0 ≤ T) :
    2 * ((A - A * (1 - d)) * (A - A * (1 - d)) * P1) + 2 * ((B - B * ((1 - d) * (1 - d))) * (B - B * ((1 - d) * (1 - d))) * P2)
      ≤ 4 * C ^ 2 * (d ^ 2 * (n * T)) := by
  have e1 : (A - A * (1 - d)) * (A - A * (1 - d)) = A ^ 2 * d ^ 2 := by ring
  have e2 : (B - B * ((1 - d) * (1 - d))) * (B - B * ((1 - d) * (1 - d))) = B ^ 2 * (d ^ 2 * (2 - d) ^ 2) := by ring
  rw [e1, e2]
  have hC2 : 0 ≤ C ^ 2 := sq_nonneg C
  have hd2 : 0 ≤ d ^ 2 := sq_nonneg d
  have hnT : 0 ≤ n * T := mul_nonneg hn0 hT
  have h2d : (2 - d) ^ 2 ≤ 4 := by nlinarith only [hd0, hd1]
  have s1 : A ^ 2 * d ^ 2 * P1 ≤ C ^ 2 * d ^ 2 * (n * T) :=
    mul_le_mul (mul_le_mul_of_nonneg_right hA2 hd2) hP1n hP1 (mul_nonneg hC2 hd2)
  have hP2' : P2 ≤ n * (n * T) := le_trans hP2n (mul_le_mul_of_nonneg_left hP1n hn0)
  have hP2'' : n * (n * T) ≤ 1 / 4 * (n * T) := mul_le_mul_of_nonneg_right hn hnT
  have ha : B ^ 2 * (d ^ 2 * (2 - d) ^ 2) ≤ C ^ 2 * (d ^ 2 * 4) :=
    mul_le_mul hB2 (mul_le_mul_of_nonneg_left h2d hd2) (mul_nonneg hd2 (sq_nonneg _)) hC2
  have s2 : B ^ 2 * (d ^ 2 * (2 - d) ^ 2) * P2 ≤ C ^ 2 * (d ^ 2 * 4) * (1 / 4 * (n * T)) :=
    mul_le_mul ha (le_trans hP2' hP2'') hP2 (mul_nonneg hC2 (mul_nonneg hd2 (by norm_num)))
  have e3 : C ^ 2 * (d ^ 2 * 4) * (1 / 4 * (n * T)) = C ^ 2 * d ^ 2 * (n * T) := by ring
  have e4 : 4 * C ^ 2 * (d ^ 2 * (n * T)) = 4 * (C ^ 2 * d ^ 2 * (n * T)) := by ring
  have hpos : 0 ≤ C ^ 2 * d ^ 2 * (n * T) := mul_nonneg (mul_nonneg hC2 hd2) hnT
  rw [e3] at s2; rw [e4]
  linarith only [s1, s2, hpos]

theorem ws_fin (C Z d n T : ℝ) (hC2 : 0 < C ^ 2) (h : C ^ 2 * Z / 2 ≤ 4 * C ^ 2 * (d ^ 2 * (n * T))) (hd0 : 0 ≤ d)
    (hd1 : d ≤ n ^ 2 / 50) (hn0 : 0 ≤ n) (hT : 0 ≤ T) : Z ≤ n ^ 5 / 300 * T := by
  have h' : C ^ 2 * Z ≤ C ^ 2 * (8 * (d ^ 2 * (n * T))) := by linarith only [h]
  have hZ : Z ≤ 8 * (d ^ 2 * (n * T)) := le_of_mul_le_mul_left h' hC2
  have hnT : 0 ≤ n * T := mul_nonneg hn0 hT
  have hdd : d ^ 2 ≤ (n ^ 2 / 50) ^ 2 := pow_le_pow_left₀ hd0 hd1 2
  have h1 : d ^ 2 * (n * T) ≤ (n ^ 2 / 50) ^ 2 * (n * T) := mul_le_mul_of_nonneg_right hdd hnT
  have e : (n ^ 2 / 50) ^ 2 * (n * T) = n ^ 5 * T / 2500 := by ring
  have hn5T : 0 ≤ n ^ 5 * T := mul_nonneg (by positivity) hT
  have e2 : n ^ 5 / 300 * T = n ^ 5 * T / 300 := by ring
  rw [e] at h1; rw [e2]
  linarith only [hZ, h1, hn5T]

/-- core estimate: if `W' y = W τ` with `W = C + A·K + B·K²`, `W' = C + (A c)·K + (B c²)·K²`, `c = 1 − d`, `0 ≤ d ≤ n²/50`, `n = ‖φ‖² ≤ 1/4`,
`|A| ≤ |C|`, `|B| ≤ |C|`, `C ≠ 0`, then `‖y − τ‖² ≤ n⁵‖τ‖²/300` -/
theorem ws_pert_bound (C A B d : ℝ) (x tau y : Vec3 ℝ) (hC : C ≠ 0) (hA : |A| ≤ |C|) (hB : |B| ≤ |C|)
    (hn : x.normSq ≤ 1 / 4) (hd0 : 0 ≤ d) (hd1 : d ≤ x.normSq ^ 2 / 50)
    (h : (polyK C (A * (1 - d)) (B * ((1 - d) * (1 - d))) x).mulVec y = (polyK C A B x).mulVec tau) :
    (y.sub tau).normSq ≤ x.normSq ^ 5 / 300 * tau.normSq := by
  have hn0 := Vec3.normSq_nonneg x
  have key : (polyK C (A * (1 - d)) (B * ((1 - d) * (1 - d))) x).mulVec (y.sub tau) =
      ((x.cross tau).smul (A - A * (1 - d))).add ((x.cross (x.cross tau)).smul (B - B * ((1 - d) * (1 - d)))) := by
    rw [Mat3.mulVec_sub, h, polyK_sub_mulVec]
  have hL := polyK_mulVec_normSq C (A * (1 - d)) (B * ((1 - d) * (1 - d))) x (y.sub tau)
  rw [key] at hL
  have hU := Vec3.add_normSq_le ((x.cross tau).smul (A - A * (1 - d))) ((x.cross (x.cross tau)).smul (B - B * ((1 - d) * (1 - d))))
  rw [Vec3.normSq_smul, Vec3.normSq_smul] at hU
  have hA2 : A ^ 2 ≤ C ^ 2 := by
    have := mul_le_mul hA hA (abs_nonneg A) (abs_nonneg C)
    rw [abs_mul_abs_self, abs_mul_abs_self] at this; nlinarith only [this]
  have hB2 : B ^ 2 ≤ C ^ 2 := by
    have := mul_le_mul hB hB (abs_nonneg B) (abs_nonneg C)
    rw [abs_mul_abs_self, abs_mul_abs_self] at this; nlinarith only [this]
  have hCB : C * B ≤ C ^ 2 := by
    have h1 := le_abs_self (C * B)
    rw [abs_mul] at h1
    have h2 := mul_le_mul_of_nonneg_left hB (abs_nonneg C)
    rw [abs_mul_abs_self] at h2
    nlinarith only [h1, h2]
  have hC2 : 0 < C ^ 2 := by positivity
  have hd50 : d ≤ 1 := by nlinarith only [hd1, hn, hn0]
  have hcc0 : 0 ≤ (1 - d) * (1 - d) := mul_self_nonneg _
  have hcc1 : (1 - d) * (1 - d) ≤ 1 := by nlinarith only [hd0, hd50]
  have low := ws_low C B ((1 - d) * (1 - d)) (A * (1 - d)) _ _ _ x.normSq hcc0 hcc1
    (Vec3.normSq_nonneg (x.cross (y.sub tau))) (Vec3.cross_normSq_le x (y.sub tau))
    (Vec3.normSq_nonneg (x.cross (x.cross (y.sub tau)))) (Vec3.normSq_nonneg (y.sub tau)) hn hCB
  have up := ws_up C A B d _ _ x.normSq tau.normSq hA2 hB2 hd0 hd50 (Vec3.normSq_nonneg (x.cross tau))
    (Vec3.cross_normSq_le x tau) (Vec3.normSq_nonneg (x.cross (x.cross tau))) (Vec3.cross_normSq_le x (x.cross tau)) hn0 hn
    (Vec3.normSq_nonneg tau)
  rw [← hL] at low
  exact ws_fin C _ d x.normSq tau.normSq hC2 (le_trans low (le_trans hU up)) hd0 hd1 hn0 (Vec3.normSq_nonneg tau)

theorem hasDerivAt_wsNB (s : ℝ) :
    HasDerivAt (fun s : ℝ => Real.exp s * (s ^ 2 / 2 - s + 1) - 1) (Real.exp s * s ^ 2 / 2) s := by
  have hp : HasDerivAt (fun s : ℝ => s ^ 2 / 2 - s + 1) (s - 1) s :=
    ((((hasDerivAt_pow 2 s).div_const 2).sub (hasDerivAt_id s)).add_const 1).congr_deriv (by norm_num)
  exact (((Real.hasDerivAt_exp s).mul hp).sub_const 1).congr_deriv (by ring)

theorem hasDerivAt_wsH (s : ℝ) :
    HasDerivAt (fun s : ℝ => Real.exp s * (s ^ 2 / 2 + s - 1) + 1 - s ^ 2) (s * (Real.exp s * (s / 2 + 2) - 2)) s := by
  have hp : HasDerivAt (fun s : ℝ => s ^ 2 / 2 + s - 1) (s + 1) s :=
    ((((hasDerivAt_pow 2 s).div_const 2).add (hasDerivAt_id s)).sub_const 1).congr_deriv (by norm_num)
  have h2 : HasDerivAt (fun s : ℝ => s ^ 2) (2 * s) s := (hasDerivAt_pow 2 s).congr_deriv (by norm_num)
  exact ((((Real.hasDerivAt_exp s).mul hp).add_const 1).sub h2).congr_deriv (by ring)

/-- `σ·(e^σ(σ²/2 − σ + 1) − 1) ≥ 0` -/
theorem wsNB_sign (s : ℝ) : 0 ≤ s * (Real.exp s * (s ^ 2 / 2 - s + 1) - 1) := by
  have mono : Monotone (fun s : ℝ => Real.exp s * (s ^ 2 / 2 - s + 1) - 1) :=
    monotone_of_deriv_nonneg (fun s => (hasDerivAt_wsNB s).differentiableAt)
      (fun s => by rw [(hasDerivAt_wsNB s).deriv]; have := Real.exp_pos s; positivity)
  have h0 : (fun s : ℝ => Real.exp s * (s ^ 2 / 2 - s + 1) - 1) 0 = 0 := by simp
  rcases le_or_gt 0 s with h | h
  · have := mono h; rw [h0] at this; exact mul_nonneg h this
  · have := mono (le_of_lt h); rw [h0] at this; exact mul_nonneg_of_nonpos_of_nonpos (le_of_lt h) this

/-- `σ·(e^σ(σ/2 + 2) − 2) ≥ 0` -/
theorem wsK_sign (s : ℝ) : 0 ≤ s * (Real.exp s * (s / 2 + 2) - 2) := by
  have hE := Real.exp_pos s
  rcases le_or_gt 0 s with h | h
  · have h1 : 1 ≤ Real.exp s := Real.one_le_exp h
    apply mul_nonneg h
    nlinarith
  · apply mul_nonneg_of_nonpos_of_nonpos (le_of_lt h)
    rcases le_or_gt s (-4) with h4 | h4
    · have : Real.exp s * (s / 2 + 2) ≤ 0 := mul_nonpos_of_nonneg_of_nonpos (le_of_lt hE) (by linarith)
      linarith
    · -- (s + 4) ≤ 4 e^{-s}
      have h1 : -s + 1 ≤ Real.exp (-s) := Real.add_one_le_exp (-s)
      have h2 : Real.exp (-s) * Real.exp s = 1 := by rw [← Real.exp_add]; simp
      have hpos : 0 < s + 4 := by linarith
      nlinarith

theorem wsH_sign (s : ℝ) : 0 ≤ s * (Real.exp s * (s ^ 2 / 2 + s - 1) + 1 - s ^ 2) := by
  have mono : Monotone (fun s : ℝ => Real.exp s * (s ^ 2 / 2 + s - 1) + 1 - s ^ 2) :=
    monotone_of_deriv_nonneg (fun s => (hasDerivAt_wsH s).differentiableAt)
      (fun s => by rw [(hasDerivAt_wsH s).deriv]; exact wsK_sign s)
  have h0 : (fun s : ℝ => Real.exp s * (s ^ 2 / 2 + s - 1) + 1 - s ^ 2) 0 = 0 := by simp
  rcases le_or_gt 0 s with h | h
  · have := mono h; rw [h0] at this; exact mul_nonneg h this
  · have := mono (le_of_lt h); rw [h0] at this; exact mul_nonneg_of_nonpos_of_nonpos (le_of_lt h) this
/-- regime 3 of `rxso3_Ws`: `0 ≤ B ≤ C` for every `σ ≠ 0` -/
theorem ws3_B_le_C (eps th sg : ℝ) (h0 : 0 ≤ eps) (hs : eps < |sg|) (ht : ¬ eps < th) :
    |(rxso3WsCoef eps th sg).2.1| ≤ |(rxso3WsCoef eps th sg).2.2| := by
  have hsg : sg ≠ 0 := abs_pos.mp (lt_of_le_of_lt h0 hs)
  rw [rxso3WsCoef_r3 eps th sg hs ht]
  simp only []
  have h4 : 0 < sg ^ 4 := by positivity
  have eB : (1 / 2 * (sg * sg) * Real.exp sg + (Real.exp sg - 1) - sg * Real.exp sg) / (sg * sg * sg)
      = sg * (Real.exp sg * (sg ^ 2 / 2 - sg + 1) - 1) / sg ^ 4 := by field_simp; ring
  have eCB : (Real.exp sg - 1) / sg - (1 / 2 * (sg * sg) * Real.exp sg + (Real.exp sg - 1) - sg * Real.exp sg) / (sg * sg * sg)
      = sg * (Real.exp sg * (sg ^ 2 / 2 + sg - 1) + 1 - sg ^ 2) / sg ^ 4 := by field_simp; ring
  have hB0 : 0 ≤ (1 / 2 * (sg * sg) * Real.exp sg + (Real.exp sg - 1) - sg * Real.exp sg) / (sg * sg * sg) := by
    rw [eB]; exact div_nonneg (wsNB_sign sg) (le_of_lt h4)
  have hCB : 0 ≤ (Real.exp sg - 1) / sg - (1 / 2 * (sg * sg) * Real.exp sg + (Real.exp sg - 1) - sg * Real.exp sg) / (sg * sg * sg) := by
    rw [eCB]; exact div_nonneg (wsH_sign sg) (le_of_lt h4)
  rw [abs_of_nonneg hB0, abs_of_nonneg (by linarith)]
  linarith

/-- regime 3 of `rxso3_Ws` (`|σ| > eps`, `θ ≤ eps`): `0 < A ≤ C` for every `σ ≠ 0` (from `1 + σ ≤ e^σ`) -/
theorem ws3_A_le_C (eps th sg : ℝ) (h0 : 0 ≤ eps) (hs : eps < |sg|) (ht : ¬ eps < th) :
    |(rxso3WsCoef eps th sg).1| ≤ |(rxso3WsCoef eps th sg).2.2| ∧ (rxso3WsCoef eps th sg).2.2 ≠ 0 := by
  have hsg : sg ≠ 0 := abs_pos.mp (lt_of_le_of_lt h0 hs)
  rw [rxso3WsCoef_r3 eps th sg hs ht]
  simp only []
  have hE := exp_sub_one_ne_zero hsg
  have hApos := ws_A3_pos hsg
  have hss : 0 < sg * sg := mul_self_pos.mpr hsg
  have hCpos : 0 < (Real.exp sg - 1) / sg := by
    rcases lt_or_gt_of_ne hsg with hneg | hpos
    · apply div_pos_of_neg_of_neg _ hneg
      have := Real.exp_lt_one_iff.mpr hneg; linarith
    · apply div_pos _ hpos
      have := Real.one_lt_exp_iff.mpr hpos; linarith
  refine ⟨?_, ne_of_gt hCpos⟩
  rw [abs_of_pos (div_pos hApos hss), abs_of_pos hCpos, div_le_iff₀ hss]
  have e : (Real.exp sg - 1) / sg * (sg * sg) = (Real.exp sg - 1) * sg := by field_simp
  rw [e]
  nlinarith [Real.add_one_le_exp sg]

/-! ## fixed sample values used by the non-vacuity examples of `Proofs/Props/C02.lean` -/
namespace C02Ex

noncomputable def qU : Quat ℝ := ⟨3 / 5, 0, 0, 4 / 5⟩        -- upper hemisphere, angle 2·atan(3/4)
noncomputable def qL : Quat ℝ := ⟨3 / 5, 0, 0, -(4 / 5)⟩     -- lower hemisphere (angle beyond π as stored)
noncomputable def qPi : Quat ℝ := ⟨1, 0, 0, 0⟩               -- rotation angle exactly π
theorem qU_unit : qU.normSq = 1 := by simp only [qU, Quat.normSq]; norm_num
theorem qL_unit : qL.normSq = 1 := by simp only [qL, Quat.normSq]; norm_num
theorem qPi_unit : qPi.normSq = 1 := by simp only [qPi, Quat.normSq]; norm_num
theorem qU_v : (1 / 1000 : ℝ) < qU.vec.norm :=
  Vec3.lt_norm_of_sq_lt (by norm_num) (by simp only [qU, Quat.vec, Vec3.normSq]; norm_num)
theorem qL_v : (1 / 1000 : ℝ) < qL.vec.norm :=
  Vec3.lt_norm_of_sq_lt (by norm_num) (by simp only [qL, Quat.vec, Vec3.normSq]; norm_num)
theorem qPi_v : (1 / 1000 : ℝ) < qPi.vec.norm :=
  Vec3.lt_norm_of_sq_lt (by norm_num) (by simp only [qPi, Quat.vec, Vec3.normSq]; norm_num)
theorem qU_w : (1 / 1000 : ℝ) < |qU.w| := by simp only [qU]; rw [abs_of_pos (by norm_num)]; norm_num
theorem qL_w : (1 / 1000 : ℝ) < |qL.w| := by
  simp only [qL]; rw [abs_neg, abs_of_pos (by norm_num)]; norm_num
theorem qPi_w : ¬ (1 / 1000 : ℝ) < |qPi.w| := by simp only [qPi, abs_zero]; norm_num
noncomputable def x1 : Vec3 ℝ := ⟨1, 0, 0⟩
theorem x1_norm : x1.norm = 1 := Vec3.norm_axis 1 (by norm_num)
theorem x1_lo : Real.pi * (1 / 1000) < x1.norm := by rw [x1_norm]; linarith [Real.pi_lt_four]
theorem x1_hi : x1.norm < Real.pi * (1 - 1 / 1000) := by rw [x1_norm]; linarith [Real.pi_gt_three]

end C02Ex

end PP
