/-
C04 (pass 3): `sim3` `Exp` backward at the zero vector and `Sim3_Log` backward at the identity are the true
left-perturbation derivatives (regime 1 of `rxso3_Ws`: constant coefficients).
-/
import Proofs.Lemmas.AutogradIdRot
import Proofs.Lemmas.AutogradExp
import Proofs.Lemmas.AutogradZero
import Mathlib.Analysis.SpecialFunctions.ExpDeriv
set_option maxRecDepth 10000
set_option maxHeartbeats 2000000
set_option linter.unusedSimpArgs false
set_option linter.unusedVariables false
namespace PP.AD
open PP

/-- regime 1 of `rxso3_Ws` (`|σ| ≤ eps`, `θ ≤ eps`): constant coefficients -/
theorem rxso3Ws_regime1 (eps : ℝ) (φ : Vec3 ℝ) (σ : ℝ) (hs : ¬ eps < |σ|) (ht : ¬ eps < φ.norm) :
    rxso3Ws eps ⟨φ, σ⟩ = polyK 1 (1/2) (1/6) φ := by
  unfold rxso3Ws rxso3WsCoef
  simp only [lt_real, sabs_real, hs, ht, decide_false, Bool.false_eq_true, if_false, Bool.not_false, Bool.and_self, if_true,
    q_real, k_real, Nat.cast_one, Nat.cast_ofNat]

/-- `t ↦ (1 + K(ψ)/2 + K(ψ)²/6)·x` along curves `ψ(t)`, `x(t)` through `0`: velocity `ẋ` -/
theorem wsTaylor_curve (p0 p1 p2 x0 x1 x2 : ℝ → ℝ) (b0 b1 b2 c0 c1 c2 : ℝ)
    (hp0 : HasDerivAt p0 b0 0) (hp1 : HasDerivAt p1 b1 0) (hp2 : HasDerivAt p2 b2 0)
    (hx0 : HasDerivAt x0 c0 0) (hx1 : HasDerivAt x1 c1 0) (hx2 : HasDerivAt x2 c2 0)
    (z0 : p0 0 = 0) (z1 : p1 0 = 0) (z2 : p2 0 = 0) (y0 : x0 0 = 0) (y1 : x1 0 = 0) (y2 : x2 0 = 0) :
    LCurve 3 (fun t => ((polyK 1 (1/2) (1/6) ⟨p0 t, p1 t, p2 t⟩).mulVec ⟨x0 t, x1 t, x2 t⟩).toList) [c0, c1, c2] := by
  have e0 := hp0.differentiableAt; have e1 := hp1.differentiableAt; have e2 := hp2.differentiableAt
  have f0 := hx0.differentiableAt; have f1 := hx1.differentiableAt; have f2 := hx2.differentiableAt
  intro i hi
  interval_cases i
  all_goals
    simp only [polyK, Vec3.toList, nth_cons_zero, nth_cons_succ]
    lie_unfold
    try simp only [nth_cons_zero, nth_cons_succ]
    refine HasDerivAt.congr_deriv (DifferentiableAt.hasDerivAt (by fun_prop)) ?_
    simp (disch := fun_prop) only [deriv_fun_add, deriv_fun_sub, deriv_fun_mul, deriv_const, deriv_const_mul_field,
      deriv.fun_neg, hp0.deriv, hp1.deriv, hp2.deriv, hx0.deriv, hx1.deriv, hx2.deriv]
    simp only [z0, z1, z2, y0, y1, y2]
    ring

/-- **`sim3_Exp.backward` at the zero vector**: exact (`sim3_Jl(0) = 1`; the truncation of the series is irrelevant at `0`) -/
theorem sim3Exp_tangent_zero (eps : ℝ) (heps : 0 < eps) (x : ℝ → DVec ℝ) (d0 d1 d2 d3 d4 d5 d6 : ℝ)
    (hx : LCurve 7 x [d0, d1, d2, d3, d4, d5, d6]) (hzt : v3 (x 0) = ⟨0, 0, 0⟩) (hzp : v3 (x 0) 3 = ⟨0, 0, 0⟩) (hzs : nth (x 0) 6 = 0) :
    LCurve 8 (fun t => expF .Sim3 eps (x t))
      (liftG .Sim3 (expF .Sim3 eps (x 0)) ((JlMat .Sim3 eps (x 0)).mulVec [d0, d1, d2, d3, d4, d5, d6])) := by
  have h0 := hx 0 (by norm_num); have h1 := hx 1 (by norm_num); have h2 := hx 2 (by norm_num)
  have h3 := hx 3 (by norm_num); have h4 := hx 4 (by norm_num); have h5 := hx 5 (by norm_num); have h6 := hx 6 (by norm_num)
  simp only [nth_cons_zero, nth_cons_succ] at h0 h1 h2 h3 h4 h5 h6
  have z0 : nth (x 0) 0 = 0 := by have := congrArg Vec3.x hzt; simpa [v3] using this
  have z1 : nth (x 0) 1 = 0 := by have := congrArg Vec3.y hzt; simpa [v3] using this
  have z2 : nth (x 0) 2 = 0 := by have := congrArg Vec3.z hzt; simpa [v3] using this
  have z3 : nth (x 0) 3 = 0 := by have := congrArg Vec3.x hzp; simpa [v3] using this
  have z4 : nth (x 0) 4 = 0 := by have := congrArg Vec3.y hzp; simpa [v3] using this
  have z5 : nth (x 0) 5 = 0 := by have := congrArg Vec3.z hzp; simpa [v3] using this
  have hNc : ContinuousAt (fun t => Real.sqrt (nth (x t) 3 * nth (x t) 3 + nth (x t) 4 * nth (x t) 4 + nth (x t) 5 * nth (x t) 5)) 0 :=
    (((h3.continuousAt.mul h3.continuousAt).add (h4.continuousAt.mul h4.continuousAt)).add (h5.continuousAt.mul h5.continuousAt)).sqrt
  have hev : ∀ᶠ t in nhds (0:ℝ), ¬ eps < (v3 (x t) 3).norm ∧ ¬ eps < |nth (x t) 6| := by
    have e1 : ∀ᶠ t in nhds (0:ℝ), Real.sqrt (nth (x t) 3 * nth (x t) 3 + nth (x t) 4 * nth (x t) 4 + nth (x t) 5 * nth (x t) 5) < eps := by
      apply hNc.eventually (gt_mem_nhds _)
      simp [z3, z4, z5, heps]
    have e2 : ∀ᶠ t in nhds (0:ℝ), |nth (x t) 6| < eps := by
      apply (h6.continuousAt.abs).eventually (gt_mem_nhds _)
      simp [hzs, heps]
    filter_upwards [e1, e2] with t ht1 ht2
    have : (v3 (x t) 3).norm = Real.sqrt (nth (x t) 3 * nth (x t) 3 + nth (x t) 4 * nth (x t) 4 + nth (x t) 5 * nth (x t) 5) := by
      simp [Vec3.norm, Vec3.normSq, v3]
    exact ⟨by rw [this]; exact not_lt.mpr (le_of_lt ht1), not_lt.mpr (le_of_lt ht2)⟩
  -- rotation block
  have hφ : LCurve 3 (fun t => [nth (x t) 3, nth (x t) 4, nth (x t) 5]) [d3, d4, d5] := by
    intro j hj
    interval_cases j
    · simpa using hx 3 (by norm_num)
    · simpa using hx 4 (by norm_num)
    · simpa using hx 5 (by norm_num)
  have hrot := so3Exp_tangent_zero eps heps (fun t => [nth (x t) 3, nth (x t) 4, nth (x t) 5]) d3 d4 d5 hφ
    (by simp [v3, z3, z4, z5])
  have hxz : x 0 = x 0 := rfl
  have hJ : (JlMat .Sim3 eps (x 0)).mulVec [d0, d1, d2, d3, d4, d5, d6] = [d0, d1, d2, d3, d4, d5, d6] := by
    have hs0 : tosim (x 0) = tosim (DVec.zero 7) := by
      simp only [tosim, hzt, hzp, hzs]
      simp [v3, DVec.zero, nth]
    have := JlMat_zero .Sim3 eps (le_of_lt heps)
    simp only [JlMat, Grp.adim] at this ⊢
    rw [hs0, this]
    simp [DMat.one, DMat.mulVec, DVec.basis, List.range, List.range.loop, ddot_cons]
  have hq : so3Exp eps ⟨0, 0, 0⟩ = ⟨0, 0, 0, 1⟩ := by
    have hn : ¬ eps < (⟨0, 0, 0⟩ : Vec3 ℝ).norm := by rw [norm_zero3]; exact not_lt.mpr (le_of_lt heps)
    rw [so3Exp_taylor eps _ hn]; simp [Quat.mk', Vec3.smul, Vec3.normSq]
  have hval : expF .Sim3 eps (x 0) = [0, 0, 0, 0, 0, 0, 1, 1] := by
    have hn : ¬ eps < (⟨0, 0, 0⟩ : Vec3 ℝ).norm := by rw [norm_zero3]; exact not_lt.mpr (le_of_lt heps)
    have hs' : ¬ eps < |(0:ℝ)| := by simp; exact le_of_lt heps
    simp only [expF, sim3Exp, rxso3Exp, tosim, hzt, hzp, hzs, rxso3Ws_regime1 eps _ _ hs' hn, hq]
    simp [Sim3.toList, Vec3.toList, Quat.toList, polyK, Mat3.mulVec, Vec3.dot]
    try lie_unfold
    try simp
  rw [hJ, hval]
  have htr := wsTaylor_curve _ _ _ _ _ _ d3 d4 d5 d0 d1 d2 h3 h4 h5 h0 h1 h2 z3 z4 z5 z0 z1 z2
  intro i hi
  by_cases h3' : i < 3
  · have := htr i h3'
    have e : nth (liftG .Sim3 [0, 0, 0, 0, 0, 0, 1, 1] [d0, d1, d2, d3, d4, d5, d6]) i = nth [d0, d1, d2] i := by
      interval_cases i <;> simp [liftG, v3, Vec3.toList, Vec3.add, Vec3.cross, Vec3.smul]
    rw [e]
    refine this.congr_of_eventuallyEq ?_
    filter_upwards [hev] with t ht
    simp only [expF, sim3Exp, tosim, rxso3Ws_regime1 eps _ _ ht.2 ht.1, Sim3.toList]
    interval_cases i <;> simp [Vec3.toList, v3]
  · by_cases h7 : i < 7
    · obtain ⟨j, hj, rfl⟩ : ∃ j, j < 4 ∧ i = 3 + j := ⟨i - 3, by omega, by omega⟩
      have := hrot j hj
      have e1' : (fun t => nth (expF .Sim3 eps (x t)) (3 + j)) = fun t => nth (expF .SO3 eps [nth (x t) 3, nth (x t) 4, nth (x t) 5]) j := by
        funext t
        interval_cases j <;> simp [expF, sim3Exp, rxso3Exp, Sim3.toList, tosim, Vec3.toList, Quat.toList, v3]
      have hJ3 : (JlMat .SO3 eps ((fun t => [nth (x t) 3, nth (x t) 4, nth (x t) 5]) 0)).mulVec [d3, d4, d5] = [d3, d4, d5] := by
        simp only [JlMat, v3, nth_cons_zero, nth_cons_succ, z3, z4, z5, so3Jl_zero eps (le_of_lt heps)]
        simp [Mat3.toRows, Mat3.one, Vec3.toList, Vec3.e0, Vec3.e1, Vec3.e2, DMat.mulVec, ddot_cons]
      have hv3 : expF .SO3 eps ((fun t => [nth (x t) 3, nth (x t) 4, nth (x t) 5]) 0) = [0, 0, 0, 1] := by
        simp only [expF, v3, nth_cons_zero, nth_cons_succ, z3, z4, z5, hq]
        simp [Quat.toList]
      rw [hJ3, hv3] at this
      rw [e1']
      refine this.congr_deriv ?_
      interval_cases j <;>
        simp [liftG, liftQ, Vec3.toList, Quat.toList, v3, qt, Quat.mul, Quat.mk', Vec3.smul]
    · have hi7 : i = 7 := by omega
      subst hi7
      have e1 : (fun t => nth (expF .Sim3 eps (x t)) 7) = fun t => Real.exp (nth (x t) 6) := by
        funext t; simp [expF, sim3Exp, rxso3Exp, Sim3.toList, tosim, Vec3.toList, Quat.toList]
      rw [e1]
      refine h6.exp.congr_deriv ?_
      simp [liftG, Vec3.toList, Quat.toList, hzs]

/-- `t ↦ (1 + K(ψ)/2 + K(ψ)²/6)⁻¹·x` (adjugate formula) along curves `ψ(t)`, `x(t)` through `0`: velocity `ẋ` (one lemma per component) -/
theorem wsInvTaylor_comp0 (p0 p1 p2 x0 x1 x2 : ℝ → ℝ) (b0 b1 b2 c0 c1 c2 : ℝ)
    (hp0 : HasDerivAt p0 b0 0) (hp1 : HasDerivAt p1 b1 0) (hp2 : HasDerivAt p2 b2 0)
    (hx0 : HasDerivAt x0 c0 0) (hx1 : HasDerivAt x1 c1 0) (hx2 : HasDerivAt x2 c2 0)
    (z0 : p0 0 = 0) (z1 : p1 0 = 0) (z2 : p2 0 = 0) (y0 : x0 0 = 0) (y1 : x1 0 = 0) (y2 : x2 0 = 0) :
    HasDerivAt (fun t => nth ((polyK 1 (1/2) (1/6) ⟨p0 t, p1 t, p2 t⟩).inv.mulVec ⟨x0 t, x1 t, x2 t⟩).toList 0) c0 0 := by
  have e0 := hp0.differentiableAt; have e1 := hp1.differentiableAt; have e2 := hp2.differentiableAt
  have f0 := hx0.differentiableAt; have f1 := hx1.differentiableAt; have f2 := hx2.differentiableAt
  simp only [polyK, Mat3.inv, Vec3.toList, nth_cons_zero, nth_cons_succ]
  lie_unfold
  try simp only [nth_cons_zero, nth_cons_succ]
  refine HasDerivAt.congr_deriv (DifferentiableAt.hasDerivAt (by fun_prop (disch := simp [z0, z1, z2]))) ?_
  simp (disch := first | fun_prop (disch := simp [z0, z1, z2]) | simp [z0, z1, z2]) only [deriv_fun_add, deriv_fun_sub, deriv_fun_mul,
    deriv_fun_div, deriv_const, deriv_const_mul_field, deriv.fun_neg, hp0.deriv, hp1.deriv, hp2.deriv, hx0.deriv, hx1.deriv, hx2.deriv]
  simp only [z0, z1, z2, y0, y1, y2]
  norm_num

theorem wsInvTaylor_comp1 (p0 p1 p2 x0 x1 x2 : ℝ → ℝ) (b0 b1 b2 c0 c1 c2 : ℝ)
    (hp0 : HasDerivAt p0 b0 0) (hp1 : HasDerivAt p1 b1 0) (hp2 : HasDerivAt p2 b2 0)
    (hx0 : HasDerivAt x0 c0 0) (hx1 : HasDerivAt x1 c1 0) (hx2 : HasDerivAt x2 c2 0)
    (z0 : p0 0 = 0) (z1 : p1 0 = 0) (z2 : p2 0 = 0) (y0 : x0 0 = 0) (y1 : x1 0 = 0) (y2 : x2 0 = 0) :
    HasDerivAt (fun t => nth ((polyK 1 (1/2) (1/6) ⟨p0 t, p1 t, p2 t⟩).inv.mulVec ⟨x0 t, x1 t, x2 t⟩).toList 1) c1 0 := by
  have e0 := hp0.differentiableAt; have e1 := hp1.differentiableAt; have e2 := hp2.differentiableAt
  have f0 := hx0.differentiableAt; have f1 := hx1.differentiableAt; have f2 := hx2.differentiableAt
  simp only [polyK, Mat3.inv, Vec3.toList, nth_cons_zero, nth_cons_succ]
  lie_unfold
  try simp only [nth_cons_zero, nth_cons_succ]
  refine HasDerivAt.congr_deriv (DifferentiableAt.hasDerivAt (by fun_prop (disch := simp [z0, z1, z2]))) ?_
  simp (disch := first | fun_prop (disch := simp [z0, z1, z2]) | simp [z0, z1, z2]) only [deriv_fun_add, deriv_fun_sub, deriv_fun_mul,
    deriv_fun_div, deriv_const, deriv_const_mul_field, deriv.fun_neg, hp0.deriv, hp1.deriv, hp2.deriv, hx0.deriv, hx1.deriv, hx2.deriv]
  simp only [z0, z1, z2, y0, y1, y2]
  norm_num

theorem wsInvTaylor_comp2 (p0 p1 p2 x0 x1 x2 : ℝ → ℝ) (b0 b1 b2 c0 c1 c2 : ℝ)
    (hp0 : HasDerivAt p0 b0 0) (hp1 : HasDerivAt p1 b1 0) (hp2 : HasDerivAt p2 b2 0)
    (hx0 : HasDerivAt x0 c0 0) (hx1 : HasDerivAt x1 c1 0) (hx2 : HasDerivAt x2 c2 0)
    (z0 : p0 0 = 0) (z1 : p1 0 = 0) (z2 : p2 0 = 0) (y0 : x0 0 = 0) (y1 : x1 0 = 0) (y2 : x2 0 = 0) :
    HasDerivAt (fun t => nth ((polyK 1 (1/2) (1/6) ⟨p0 t, p1 t, p2 t⟩).inv.mulVec ⟨x0 t, x1 t, x2 t⟩).toList 2) c2 0 := by
  have e0 := hp0.differentiableAt; have e1 := hp1.differentiableAt; have e2 := hp2.differentiableAt
  have f0 := hx0.differentiableAt; have f1 := hx1.differentiableAt; have f2 := hx2.differentiableAt
  simp only [polyK, Mat3.inv, Vec3.toList, nth_cons_zero, nth_cons_succ]
  lie_unfold
  try simp only [nth_cons_zero, nth_cons_succ]
  refine HasDerivAt.congr_deriv (DifferentiableAt.hasDerivAt (by fun_prop (disch := simp [z0, z1, z2]))) ?_
  simp (disch := first | fun_prop (disch := simp [z0, z1, z2]) | simp [z0, z1, z2]) only [deriv_fun_add, deriv_fun_sub, deriv_fun_mul,
    deriv_fun_div, deriv_const, deriv_const_mul_field, deriv.fun_neg, hp0.deriv, hp1.deriv, hp2.deriv, hx0.deriv, hx1.deriv, hx2.deriv]
  simp only [z0, z1, z2, y0, y1, y2]
  norm_num

theorem wsInvTaylor_curve (p0 p1 p2 x0 x1 x2 : ℝ → ℝ) (b0 b1 b2 c0 c1 c2 : ℝ)
    (hp0 : HasDerivAt p0 b0 0) (hp1 : HasDerivAt p1 b1 0) (hp2 : HasDerivAt p2 b2 0)
    (hx0 : HasDerivAt x0 c0 0) (hx1 : HasDerivAt x1 c1 0) (hx2 : HasDerivAt x2 c2 0)
    (z0 : p0 0 = 0) (z1 : p1 0 = 0) (z2 : p2 0 = 0) (y0 : x0 0 = 0) (y1 : x1 0 = 0) (y2 : x2 0 = 0) :
    LCurve 3 (fun t => ((polyK 1 (1/2) (1/6) ⟨p0 t, p1 t, p2 t⟩).inv.mulVec ⟨x0 t, x1 t, x2 t⟩).toList) [c0, c1, c2] := by
  intro i hi
  interval_cases i
  · exact wsInvTaylor_comp0 p0 p1 p2 x0 x1 x2 b0 b1 b2 c0 c1 c2 hp0 hp1 hp2 hx0 hx1 hx2 z0 z1 z2 y0 y1 y2
  · exact wsInvTaylor_comp1 p0 p1 p2 x0 x1 x2 b0 b1 b2 c0 c1 c2 hp0 hp1 hp2 hx0 hx1 hx2 z0 z1 z2 y0 y1 y2
  · exact wsInvTaylor_comp2 p0 p1 p2 x0 x1 x2 b0 b1 b2 c0 c1 c2 hp0 hp1 hp2 hx0 hx1 hx2 z0 z1 z2 y0 y1 y2

/-- **`Sim3_Log.backward` at the identity element** (`t = 0`, `q = ±1`, `s = 1`): exact.  Regime 1 of `rxso3_Ws` has constant
coefficients, so away from `t = 0` the coded forward has no `σ`-dependence and the statement would be false. -/
theorem Sim3Log_tangent_identity (eps : ℝ) (heps : 0 < eps) (X : ℝ → DVec ℝ) (a0 a1 a2 a3 a4 a5 a6 : ℝ)
    (hX : LCurve 8 X (liftG .Sim3 (X 0) [a0, a1, a2, a3, a4, a5, a6])) (ht : v3 (X 0) = ⟨0, 0, 0⟩)
    (hv : (qt (X 0) 3).vec = ⟨0, 0, 0⟩) (hw : nth (X 0) 6 * nth (X 0) 6 = 1) (hs : nth (X 0) 7 = 1) :
    LCurve 7 (fun t => logF .Sim3 eps (X t))
      ((JlInvMat .Sim3 eps (logF .Sim3 eps (X 0))).mulVec [a0, a1, a2, a3, a4, a5, a6]) := by
  have z0 : nth (X 0) 0 = 0 := by have := congrArg Vec3.x ht; simpa [v3] using this
  have z1 : nth (X 0) 1 = 0 := by have := congrArg Vec3.y ht; simpa [v3] using this
  have z2 : nth (X 0) 2 = 0 := by have := congrArg Vec3.z ht; simpa [v3] using this
  have z3 : nth (X 0) 3 = 0 := by have := congrArg Vec3.x hv; simpa [qt, Quat.vec] using this
  have z4 : nth (X 0) 4 = 0 := by have := congrArg Vec3.y hv; simpa [qt, Quat.vec] using this
  have z5 : nth (X 0) 5 = 0 := by have := congrArg Vec3.z hv; simpa [qt, Quat.vec] using this
  have h0 := hX 0 (by norm_num); have h1 := hX 1 (by norm_num); have h2 := hX 2 (by norm_num)
  simp only [liftG, v3, nth_cons_zero, nth_cons_succ, Vec3.toList, Vec3.add, Vec3.cross, Vec3.smul, List.cons_append,
    z0, z1, z2] at h0 h1 h2
  norm_num at h0 h1 h2
  -- rotation-scale part
  let R : ℝ → DVec ℝ := fun t => [nth (X t) 3, nth (X t) 4, nth (X t) 5, nth (X t) 6, nth (X t) 7]
  have hR : LCurve 5 R (liftG .RxSO3 (R 0) [a3, a4, a5, a6]) := by
    intro j hj
    have := hX (3 + j) (by omega)
    interval_cases j <;>
      simpa [R, liftG, liftQ, qt, v3, Quat.toList, Vec3.toList] using this
  have hL := RxSO3Log_tangent_identity eps heps R a3 a4 a5 a6 hR (by simp [R, hs])
    (by simpa [R, qt, Quat.vec] using hv) (by simpa [R] using hw)
  have hlog0 : SO3Log eps (qt (X 0) 3) = ⟨0, 0, 0⟩ := by
    have hnz0 : ¬ eps < (qt (X 0) 3).vec.norm := by
      rw [hv]; simp [Vec3.norm, Vec3.normSq]; exact le_of_lt heps
    rw [SO3Log_regime3 eps _ hnz0, hv]; simp [Vec3.smul]
  have hLv : logF .RxSO3 eps (R 0) = [0, 0, 0, 0] := by
    have e : qt (R 0) = qt (X 0) 3 := by simp [R, qt]
    simp only [logF, RxSO3Log, toRx, e, hlog0]
    simp [R, rxso3.toList, Vec3.toList, hs]
  have hJr : (JlInvMat .RxSO3 eps (logF .RxSO3 eps (R 0))).mulVec [a3, a4, a5, a6] = [a3, a4, a5, a6] := by
    have := JlInvMat_zero .RxSO3 eps (le_of_lt heps)
    rw [hLv]
    simp only [Grp.adim, DVec.zero, List.replicate, k_real, Nat.cast_zero] at this
    rw [this]
    simp [DMat.one, DMat.mulVec, DVec.basis, List.range, List.range.loop, ddot_cons]
  rw [hJr] at hL
  have p0 := hL 0 (by norm_num); have p1 := hL 1 (by norm_num); have p2 := hL 2 (by norm_num); have p3 := hL 3 (by norm_num)
  simp only [nth_cons_zero, nth_cons_succ] at p0 p1 p2 p3
  have q0 : nth (logF .RxSO3 eps (R 0)) 0 = 0 := by rw [hLv]; simp
  have q1 : nth (logF .RxSO3 eps (R 0)) 1 = 0 := by rw [hLv]; simp
  have q2 : nth (logF .RxSO3 eps (R 0)) 2 = 0 := by rw [hLv]; simp
  have q3 : nth (logF .RxSO3 eps (R 0)) 3 = 0 := by rw [hLv]; simp
  have hNc : ContinuousAt (fun t => Real.sqrt (nth (logF .RxSO3 eps (R t)) 0 * nth (logF .RxSO3 eps (R t)) 0
      + nth (logF .RxSO3 eps (R t)) 1 * nth (logF .RxSO3 eps (R t)) 1 + nth (logF .RxSO3 eps (R t)) 2 * nth (logF .RxSO3 eps (R t)) 2)) 0 :=
    (((p0.continuousAt.mul p0.continuousAt).add (p1.continuousAt.mul p1.continuousAt)).add (p2.continuousAt.mul p2.continuousAt)).sqrt
  have hev : ∀ᶠ t in nhds (0:ℝ), ¬ eps < (v3 (logF .RxSO3 eps (R t))).norm ∧ ¬ eps < |nth (logF .RxSO3 eps (R t)) 3| := by
    have e1 : ∀ᶠ t in nhds (0:ℝ), Real.sqrt (nth (logF .RxSO3 eps (R t)) 0 * nth (logF .RxSO3 eps (R t)) 0
      + nth (logF .RxSO3 eps (R t)) 1 * nth (logF .RxSO3 eps (R t)) 1 + nth (logF .RxSO3 eps (R t)) 2 * nth (logF .RxSO3 eps (R t)) 2) < eps := by
      apply hNc.eventually (gt_mem_nhds _)
      simp [q0, q1, q2, heps]
    have e2 : ∀ᶠ t in nhds (0:ℝ), |nth (logF .RxSO3 eps (R t)) 3| < eps := by
      apply (p3.continuousAt.abs).eventually (gt_mem_nhds _)
      simp [q3, heps]
    filter_upwards [e1, e2] with t ht1 ht2
    have : (v3 (logF .RxSO3 eps (R t))).norm = Real.sqrt (nth (logF .RxSO3 eps (R t)) 0 * nth (logF .RxSO3 eps (R t)) 0
      + nth (logF .RxSO3 eps (R t)) 1 * nth (logF .RxSO3 eps (R t)) 1 + nth (logF .RxSO3 eps (R t)) 2 * nth (logF .RxSO3 eps (R t)) 2) := by
      simp [Vec3.norm, Vec3.normSq, v3]
    exact ⟨by rw [this]; exact not_lt.mpr (le_of_lt ht1), not_lt.mpr (le_of_lt ht2)⟩
  -- the Sim3 logarithm in terms of the RxSO3 one
  have hsplit : ∀ t, logF .Sim3 eps (X t) =
      ((rxso3Ws eps ⟨v3 (logF .RxSO3 eps (R t)), nth (logF .RxSO3 eps (R t)) 3⟩).inv.mulVec (v3 (X t))).toList ++ logF .RxSO3 eps (R t) := by
    intro t
    simp [logF, Sim3Log, RxSO3Log, toSim, toRx, R, sim3.toList, rxso3.toList, Vec3.toList, qt, v3]
  have hval : logF .Sim3 eps (X 0) = DVec.zero 7 := by
    rw [hsplit 0, hLv]
    have hn : ¬ eps < (⟨0, 0, 0⟩ : Vec3 ℝ).norm := by rw [norm_zero3]; exact not_lt.mpr (le_of_lt heps)
    have hs' : ¬ eps < |(0:ℝ)| := by simp; exact le_of_lt heps
    simp only [v3, nth_cons_zero, nth_cons_succ, rxso3Ws_regime1 eps _ _ hs' hn, z0, z1, z2]
    simp [Mat3.mulVec, Vec3.dot, Vec3.toList, DVec.zero]
  have hJ : (JlInvMat .Sim3 eps (logF .Sim3 eps (X 0))).mulVec [a0, a1, a2, a3, a4, a5, a6] = [a0, a1, a2, a3, a4, a5, a6] := by
    have := JlInvMat_zero .Sim3 eps (le_of_lt heps)
    simp only [Grp.adim] at this
    rw [hval, this]
    simp [DMat.one, DMat.mulVec, DVec.basis, List.range, List.range.loop, ddot_cons]
  rw [hJ]
  have htr := wsInvTaylor_curve _ _ _ _ _ _ a3 a4 a5 a0 a1 a2 p0 p1 p2 h0 h1 h2 q0 q1 q2 z0 z1 z2
  intro i hi
  by_cases h3' : i < 3
  · have := htr i h3'
    have e : nth [a0, a1, a2, a3, a4, a5, a6] i = nth [a0, a1, a2] i := by interval_cases i <;> simp
    rw [e]
    refine this.congr_of_eventuallyEq ?_
    filter_upwards [hev] with t ht
    rw [hsplit t, rxso3Ws_regime1 eps _ _ ht.2 ht.1]
    interval_cases i <;> simp [Vec3.toList, v3]
  · obtain ⟨j, hj, rfl⟩ : ∃ j, j < 4 ∧ i = 3 + j := ⟨i - 3, by omega, by omega⟩
    have := hL j hj
    have e : nth [a0, a1, a2, a3, a4, a5, a6] (3 + j) = nth [a3, a4, a5, a6] j := by interval_cases j <;> simp
    rw [e]
    refine this.congr_of_eventuallyEq ?_
    filter_upwards with t
    rw [hsplit t]
    interval_cases j <;> simp [Vec3.toList]

end PP.AD
