import Pose.Wire
import Pose.Model.Cloud
import Pose.Driver.Lie
import Pose.Model.Batch
/-!
# Driver ops for C18 (point-cloud filters, camera helpers)

Clouds travel as `D N x₀₀ … x₀,D₋₁ x₁₀ …` (row major).  The external kernels of the model are
instantiated by the stand-ins `topkStd`, `uniqStd`, `argsortStd`; their contracts (`topkOk`, `uniqOk`,
permutation + sortedness of `argsort`) are re-checked on **every** call — a failed contract is reported
as `err contract-…`, which the harness turns into an infrastructure error (exit 2), never a pass.
-/
namespace PP.Driver
open PP Wire Cloud

/-- `.to(torch.int64)`: truncation toward zero -/
def truncInt (a : BigF) : Int :=
  if a.m < 0 then -(BigF.floorInt (BigF.neg a)) else BigF.floorInt a

def chunk (d : Nat) (xs : List β) : List (List β) :=
  if _h : d = 0 ∨ xs.length < d then [] else xs.take d :: chunk d (xs.drop d)
termination_by xs.length
decreasing_by simp [List.length_drop]; omega

def parseNorm (s : String) : Except String Norm :=
  match s with
  | "1" => .ok .l1 | "2" => .ok .l2 | "inf" => .ok .linf
  | _ => .error s!"bad-ord:{s}"

/-- read `n` points of width `d` from the front of a number list -/
def takeCloud (d n : Nat) (xs : List BigF) : Except String (List (List BigF) × List BigF) := do
  let (a, rest) ← Wire.take (d * n) xs
  if d == 0 then return (List.replicate n [], rest) else return (chunk d a, rest)

def allTopkOk (largest : Bool) (rows : List (List BigF)) (kk : Nat) : Bool :=
  rows.all fun d => topkOkFast largest d kk (topkStd largest d kk)

def fmtMixed (a : String) (b : String) : String :=
  if a.isEmpty then b else if b.isEmpty then a else a ++ " " ++ b

def mat3 (l : List BigF) (o : Nat := 0) : Mat3 BigF := ⟨v3 l o, v3 l (o+3), v3 l (o+6)⟩

def parseRed (s : String) : Except String Reduction :=
  match s with
  | "none" => .ok .none | "sum" => .ok .sum | "norm" => .ok .norm
  | _ => .error s!"bad-reduction:{s}"

def isPermOfRange (n : Nat) (p : List Nat) : Bool :=
  p.length == n && p.all (· < n) && p.Nodup

def sortedNat (xs : List Nat) : Bool := xs.Pairwise (· ≤ ·)


def parseDtype (s : String) : Except String Dtype :=
  match s with
  | "float32" => .ok .f32 | "float64" => .ok .f64 | "float16" => .ok .f16 | "bfloat16" => .ok .bf16
  | _ => .error s!"bad-dtype:{s}"

def parsePdim (s : String) : Except String (Option Nat) :=
  if s == "none" then .ok none else (nat s).map some


/-- read `rank d₁ … d_rank` from the front of a token list -/
def takeShape (ts : List String) : Except String (List Nat × List String) := do
  match ts with
  | r :: rest =>
    let r ← nat r
    let (sh, rest) ← Wire.take r rest
    let sh ← nats sh
    return (sh, rest)
  | [] => throw "arity"

def fmtShape (s : List Nat) : String := fmtMixed (toString s.length) (fmtNats s)

def opsC18 : List (String × Handler) := [
  -- c18.knn ord largest k D N1 N2 <ref> <nbr>   ->  N1*k values, then N1*k indices
  ("c18.knn", fun ts => do
      match ts with
      | o :: lg :: kk :: d :: n1 :: n2 :: rest =>
        let o ← parseNorm o; let lg ← nat lg; let kk ← nat kk
        let d ← nat d; let n1 ← nat n1; let n2 ← nat n2
        let xs ← nums rest
        let (ref, xs) ← takeCloud d n1 xs
        let (nbr, _) ← takeCloud d n2 xs
        let largest := lg == 1
        match knn topkStd o largest kk ref nbr with
        | none => throw "k-range"
        | some rows =>
          if !(allTopkOk largest (ref.map fun r => nbr.map (dist o r)) kk) then throw "contract-topk"
          return fmtMixed (fmt (rows.flatMap (·.1))) (fmtNats (rows.flatMap (·.2)))
      | _ => throw "arity"),
  -- c18.nbr ord pdim D N n radius <pts>   -> N mask bits, then N counts
  ("c18.nbr", fun ts => do
      match ts with
      | o :: pdim :: d :: n :: nn :: radius :: rest =>
        let o ← parseNorm o; let pdim ← nat pdim; let d ← nat d; let n ← nat n; let nn ← int nn
        let radius ← num radius
        let xs ← nums rest
        let (pts, _) ← takeCloud d n xs
        let mask := nbrMask o pdim radius nn pts
        let cnt := pts.map (nbrCount o pdim radius pts)
        return fmtMixed (fmtNats (mask.map fun b => if b then 1 else 0)) (fmtInts cnt)
      | _ => throw "arity"),
  -- c18.voxel D vdim N <vox> <pts>   -> M, M*vdim key ints, M*D centroid numbers
  ("c18.voxel", fun ts => do
      match ts with
      | d :: vdim :: n :: rest =>
        let d ← nat d; let vdim ← nat vdim; let n ← nat n
        let xs ← nums rest
        let (vox, xs) ← Wire.take vdim xs
        let (pts, _) ← takeCloud d n xs
        let keys := voxKeys truncInt vox pts
        let u := uniqStd keys
        if !(uniqOk keys u) then throw "contract-unique"
        let out := voxelFilter truncInt uniqStd vox pts
        return fmtMixed (fmtMixed (toString u.length) (fmtInts u.flatten)) (fmt out.flatten)
      | _ => throw "arity"),
  -- c18.voxrand D vdim N M <rnd(M)> <vox> <pts>   -> M*D numbers (member chosen with a stable argsort)
  ("c18.voxrand", fun ts => do
      match ts with
      | d :: vdim :: n :: m :: rest =>
        let d ← nat d; let vdim ← nat vdim; let n ← nat n; let m ← nat m
        let (rnd, rest) ← Wire.take m rest
        let rnd ← nats rnd
        let xs ← nums rest
        let (vox, xs) ← Wire.take vdim xs
        let (pts, _) ← takeCloud d n xs
        let keys := voxKeys truncInt vox pts
        let u := uniqStd keys
        if !(uniqOk keys u) then throw "contract-unique"
        if u.length != m then throw s!"voxel-count:{u.length}"
        let inv := inverseIdx u keys
        let srt := argsortStd inv
        if !(isPermOfRange n srt && sortedNat (srt.map fun i => inv.getD i 0)) then throw "contract-argsort"
        let out := voxelRandom truncInt uniqStd argsortStd rnd vox pts
        return fmt out.flatten
      | _ => throw "arity"),
  -- c18.knnf ord pdim D N k hasRadius radius <pts>   -> M, M*D numbers
  ("c18.knnf", fun ts => do
      match ts with
      | o :: pdim :: d :: n :: kk :: hasR :: radius :: rest =>
        let o ← parseNorm o; let pdim ← nat pdim; let d ← nat d; let n ← nat n; let kk ← nat kk
        let hasR ← nat hasR; let radius ← num radius
        let xs ← nums rest
        let (pts, _) ← takeCloud d n xs
        let r : Option BigF := if hasR == 1 then some radius else none
        match knnFilter topkStd o pdim kk r pts with
        | none => throw "k-range"
        | some out =>
          let rows := (knnRetained o pdim kk r pts).map fun p => pts.map (pdist o pdim p)
          if !(allTopkOk false rows (kk + 1)) then throw "contract-topk"
          return fmtMixed (toString out.length) (fmt out.flatten)
      | _ => throw "arity"),
  -- c18.randf D N num <perm(N)> <pts>   -> num*D numbers
  ("c18.randf", fun ts => do
      match ts with
      | d :: n :: num :: rest =>
        let d ← nat d; let n ← nat n; let num ← nat num
        let (pm, rest) ← Wire.take n rest
        let pm ← nats pm
        if !(isPermOfRange n pm) then throw "contract-randperm"
        let xs ← nums rest
        let (pts, _) ← takeCloud d n xs
        match randomFilter pm num pts with
        | none => throw "num-range"
        | some out => return fmt out.flatten
      | _ => throw "arity"),
  -- c18.api.nbr ord pdim|none D N n radius returnMask <pts>   -> "M mask|nomask rows…"; err check  (documented asserts)
  ("c18.api.nbr", fun ts => do
      match ts with
      | o :: pdim :: d :: n :: nn :: radius :: rm :: rest =>
        let o ← parseNorm o; let pdim ← parsePdim pdim; let d ← nat d; let n ← nat n; let nn ← int nn
        let radius ← num radius; let rm ← nat rm
        let xs ← nums rest
        let (pts, _) ← takeCloud d n xs
        match nbrFilterApi d pts nn radius pdim o (rm == 1) with
        | none => throw "check"
        | some (out, mask) =>
          let mtxt := match mask with
            | none => "nomask"
            | some m => "mask " ++ fmtNats (m.map fun b => if b then 1 else 0)
          return fmtMixed (fmtMixed (toString out.length) mtxt) (fmt out.flatten)
      | _ => throw "arity"),
  -- c18.api.knnf ord pdim|none D N k hasRadius radius <pts>   -> M, M*D numbers; err check | k-range
  ("c18.api.knnf", fun ts => do
      match ts with
      | o :: pdim :: d :: n :: kk :: hasR :: radius :: rest =>
        let o ← parseNorm o; let pdim ← parsePdim pdim; let d ← nat d; let n ← nat n; let kk ← nat kk
        let hasR ← nat hasR; let radius ← num radius
        let xs ← nums rest
        let (pts, _) ← takeCloud d n xs
        let r : Option BigF := if hasR == 1 then some radius else none
        match resolvePdim pdim d with
        | none => throw "check"
        | some pd =>
          if normRaises o pd then throw "norm-empty"
          match knnFilterApi topkStd d pts kk pdim r o with
          | none => throw "k-range"
          | some out =>
            let rows := (knnRetained o pd kk r pts).map fun p => pts.map (pdist o pd p)
            if !(allTopkOk false rows (kk + 1)) then throw "contract-topk"
            return fmtMixed (toString out.length) (fmt out.flatten)
      | _ => throw "arity"),
  -- c18.api.voxel random D vdim N M <rnd(M)> <vox> <pts>   -> M' , rows; err check      (random=0: M and rnd ignored, pass 0)
  ("c18.api.voxel", fun ts => do
      match ts with
      | rnd :: d :: vdim :: n :: m :: rest =>
        let rndF ← nat rnd; let d ← nat d; let vdim ← nat vdim; let n ← nat n; let m ← nat m
        let (draws, rest) ← Wire.take m rest
        let draws ← nats draws
        let xs ← nums rest
        let (vox, xs) ← Wire.take vdim xs
        let (pts, _) ← takeCloud d n xs
        match voxelFilterApi truncInt uniqStd argsortStd draws d pts vox (rndF == 1) with
        | none => throw "check"
        | some out =>
          let keys := voxKeys truncInt vox pts
          let u := uniqStd keys
          if !(uniqOk keys u) then throw "contract-unique"
          if rndF == 1 then
            if u.length != m then throw s!"voxel-count:{u.length}"
            let inv := inverseIdx u keys
            let srt := argsortStd inv
            if !(isPermOfRange n srt && sortedNat (srt.map fun i => inv.getD i 0)) then throw "contract-argsort"
          return fmtMixed (toString out.length) (fmt out.flatten)
      | _ => throw "arity"),
  -- c18.api.h2c dtype <p>
  ("c18.api.h2c", fun ts => do
      match ts with
      | dtp :: rest =>
        let dtp ← parseDtype dtp
        let xs ← nums rest
        if xs.isEmpty then throw "arity"
        return fmt (homo2cartApi dtp xs)
      | _ => throw "arity"),
  -- c18.api.p2p dtype hasExt <K 9> [<ext 7>] <p 3>
  ("c18.api.p2p", fun ts => do
      match ts with
      | dtp :: he :: rest =>
        let dtp ← parseDtype dtp; let he ← nat he
        let xs ← nums rest
        if he == 1 then
          if xs.length != 19 then throw "arity"
          return fmt (point2pixelApi dtp (mat3 xs 0) (some (toSE3 xs 9)) (v3 xs 16))
        else
          if xs.length != 12 then throw "arity"
          return fmt (point2pixelApi dtp (mat3 xs 0) none (v3 xs 9))
      | _ => throw "arity"),
  -- c18.api.reproj dtype reduction hasExt <K 9> [<ext 7>] <p 3> <px 2>     err check for an unknown reduction
  ("c18.api.reproj", fun ts => do
      match ts with
      | dtp :: red :: he :: rest =>
        let dtp ← parseDtype dtp; let he ← nat he
        let xs ← nums rest
        let r ← (if he == 1 then
            (if xs.length != 21 then throw "arity" else
              pure (reprojerrApi dtp (mat3 xs 0) (some (toSE3 xs 9)) red (v3 xs 16) [xs.getD 19 default, xs.getD 20 default]))
          else
            (if xs.length != 14 then throw "arity" else
              pure (reprojerrApi dtp (mat3 xs 0) none red (v3 xs 9) [xs.getD 12 default, xs.getD 13 default])))
        match r with
        | none => throw "check"
        | some e => return fmt e
      | _ => throw "arity"),
  -- c18.api.knn ord largest k D N1 N2 <ref> <nbr>   ->  like c18.knn; err norm-empty | k-range
  ("c18.api.knn", fun ts => do
      match ts with
      | o :: lg :: kk :: d :: n1 :: n2 :: rest =>
        let o ← parseNorm o; let lg ← nat lg; let kk ← nat kk
        let d ← nat d; let n1 ← nat n1; let n2 ← nat n2
        let xs ← nums rest
        let (ref, xs) ← takeCloud d n1 xs
        let (nbr, _) ← takeCloud d n2 xs
        let largest := lg == 1
        if normRaises o d then throw "norm-empty"
        match knnApi topkStd d o largest kk ref nbr with
        | none => throw "k-range"
        | some rows =>
          if !(allTopkOk largest (ref.map fun r => nbr.map (dist o r)) kk) then throw "contract-topk"
          return fmtMixed (fmt (rows.flatMap (·.1))) (fmtNats (rows.flatMap (·.2)))
      | _ => throw "arity"),
  -- c18.api.knnu ord largest k D N1 N2 <ref> <nbr>   -> knn(sorted=False): values / indices of an answer meeting the UNSORTED contract
  ("c18.api.knnu", fun ts => do
      match ts with
      | o :: lg :: kk :: d :: n1 :: n2 :: rest =>
        let o ← parseNorm o; let lg ← nat lg; let kk ← nat kk
        let d ← nat d; let n1 ← nat n1; let n2 ← nat n2
        let xs ← nums rest
        let (ref, xs) ← takeCloud d n1 xs
        let (nbr, _) ← takeCloud d n2 xs
        let largest := lg == 1
        if normRaises o d then throw "norm-empty"
        -- stand-in for the unsorted kernel: the sorted stand-in with its answer reversed (any order is allowed)
        let topkU : Bool → List BigF → Nat → List Nat := fun l v k => (topkStd l v k).reverse
        match knnApiS topkStd topkU d o largest false kk ref nbr with
        | none => throw "k-range"
        | some rows =>
          if !((ref.map fun r => nbr.map (dist o r)).all fun dr => topkOkUnsorted largest dr kk (topkU largest dr kk)) then
            throw "contract-topk"
          return fmtMixed (fmt (rows.flatMap (·.1))) (fmtNats (rows.flatMap (·.2)))
      | _ => throw "arity"),
  -- c18.api.randf D N num B <perm(N)> <B clouds>   -> B*num*D numbers (one draw for every batch item); err check
  ("c18.api.randf", fun ts => do
      match ts with
      | d :: n :: num :: b :: rest =>
        let d ← nat d; let n ← nat n; let num ← nat num; let b ← nat b
        let (pm, rest) ← Wire.take n rest
        let pm ← nats pm
        if !(isPermOfRange n pm) then throw "contract-randperm"
        let xs ← nums rest
        let (all, _) ← takeCloud d (n * b) xs
        let clouds := if n == 0 then List.replicate b [] else chunk n all
        let outs := randomFilterBatch d pm num clouds
        if outs.any (·.isNone) then throw "check"
        return fmt (outs.flatMap fun o => (o.getD []).flatten)
      | _ => throw "arity"),
  -- c18.api.p2pb dtype hasExt <shape bp> <shape bk> [<shape be>] n <points> <K> [<ext>]   -> <shape out> values; err broadcast
  ("c18.api.p2pb", fun ts => do
      match ts with
      | dtp :: he :: rest =>
        let dtp ← parseDtype dtp; let he ← nat he
        let (bp, rest) ← takeShape rest
        let (bk, rest) ← takeShape rest
        let (be, rest) ← if he == 1 then takeShape rest else pure ([], rest)
        match rest with
        | n :: rest =>
          let n ← nat n
          let xs ← nums rest
          let np := Batch.numel bp; let nk := Batch.numel bk; let ne := Batch.numel be
          let (pd, xs) ← Wire.take (np * n * 3) xs
          let (kd, xs) ← Wire.take (nk * 9) xs
          let P : Batch.T (List (Vec3 BigF)) := ⟨bp, fun i => (List.range n).map fun j => v3 pd ((i * n + j) * 3)⟩
          let K : Batch.T (Mat3 BigF) := ⟨bk, fun i => mat3 kd (i * 9)⟩
          let E : Option (Batch.T (SE3 BigF)) ← (if he == 1 then do
              let (ed, _) ← Wire.take (ne * 7) xs
              pure (some ⟨be, fun i => toSE3 ed (i * 7)⟩) else pure none)
          match point2pixelBatch dtp P K E with
          | none => throw "broadcast"
          | some out =>
            let vals := (List.range (Batch.numel out.shape)).flatMap fun kx => (out.data kx).flatten
            return fmtMixed (fmtShape out.shape) (fmt vals)
        | [] => throw "arity"
      | _ => throw "arity"),
  -- c18.api.px2ptb <shape bp> <shape bd> <shape bk> n <pixels> <depth> <K>   -> <shape out> values; err broadcast | focal-zero
  ("c18.api.px2ptb", fun ts => do
      let (bp, rest) ← takeShape ts
      let (bd, rest) ← takeShape rest
      let (bk, rest) ← takeShape rest
      match rest with
      | n :: rest =>
        let n ← nat n
        let xs ← nums rest
        let np := Batch.numel bp; let nd := Batch.numel bd; let nk := Batch.numel bk
        let (pd, xs) ← Wire.take (np * n * 2) xs
        let (dd, xs) ← Wire.take (nd * n) xs
        let (kd, _) ← Wire.take (nk * 9) xs
        let PX : Batch.T (List (BigF × BigF)) := ⟨bp, fun i => (List.range n).map fun j =>
          (pd.getD ((i * n + j) * 2) default, pd.getD ((i * n + j) * 2 + 1) default)⟩
        let DP : Batch.T (List BigF) := ⟨bd, fun i => (List.range n).map fun j => dd.getD (i * n + j) default⟩
        let K : Batch.T (Mat3 BigF) := ⟨bk, fun i => mat3 kd (i * 9)⟩
        match pixel2pointBatch PX DP K with
        | none => throw "broadcast"
        | some out =>
          let items := (List.range (Batch.numel out.shape)).flatMap fun kx => out.data kx
          if items.any (·.isNone) then throw "focal-zero"
          return fmtMixed (fmtShape out.shape) (fmt (items.flatMap fun o => (o.getD ⟨default, default, default⟩).toList))
      | [] => throw "arity"),
  -- c18.c2h <p>
  ("c18.c2h", numeric fun xs => .ok (cart2homo xs)),
  -- c18.h2c tiny <p>
  ("c18.h2c", numeric fun xs =>
      match xs with
      | tiny :: p => if p.isEmpty then .error "arity" else .ok (homo2cart tiny p)
      | _ => .error "arity"),
  -- c18.p2p hasExt tiny <K 9> [<ext 7>] <p 3>
  ("c18.p2p", fun ts => do
      match ts with
      | he :: rest =>
        let he ← nat he
        let xs ← nums rest
        if he == 1 then
          if xs.length != 20 then throw "arity"
          return fmt (point2pixel (xs.getD 0 default) (mat3 xs 1) (some (toSE3 xs 10)) (v3 xs 17))
        else
          if xs.length != 13 then throw "arity"
          return fmt (point2pixel (xs.getD 0 default) (mat3 xs 1) none (v3 xs 10))
      | _ => throw "arity"),
  -- c18.px2pt <K 9> u v depth
  ("c18.px2pt", numeric fun xs =>
      if xs.length != 12 then .error "arity" else
      match pixel2point (mat3 xs 0) (xs.getD 9 default) (xs.getD 10 default) (xs.getD 11 default) with
      | none => .error "focal-zero"
      | some p => .ok p.toList),
  -- c18.reproj red hasExt tiny <K 9> [<ext 7>] <p 3> <px 2>
  ("c18.reproj", fun ts => do
      match ts with
      | red :: he :: rest =>
        let red ← parseRed red; let he ← nat he
        let xs ← nums rest
        if he == 1 then
          if xs.length != 22 then throw "arity"
          return fmt (reprojerr (xs.getD 0 default) (mat3 xs 1) (some (toSE3 xs 10)) red (v3 xs 17)
            [xs.getD 20 default, xs.getD 21 default])
        else
          if xs.length != 15 then throw "arity"
          return fmt (reprojerr (xs.getD 0 default) (mat3 xs 1) none red (v3 xs 10)
            [xs.getD 13 default, xs.getD 14 default])
      | _ => throw "arity")
]

end PP.Driver
