/-!
# Model of `pypose/sparse/ops.py`: `bsr_bsc_matmul` (two-pointer merge join) and `_sparse_csr_mm` (dispatch)

Index arrays are functions `Nat → Nat` (the driver wraps arrays, out-of-range reads give `0`).
A block-CSR matrix with `sm` block rows is `(crow, col, vals)`: block row `i` owns the plain indices
`crow i ≤ k1 < crow (i+1)`, block `k1` sits in block column `col k1` and has value `vals k1`.
Block-CSC symmetric: `(ccol, row, vals)`.

The loop nest of `bsr_bsc_matmul` is modelled literally: `advance` is the inner `while`, `joinRow` the
`for k1` loop with its `break`, `joinAll` the `for i / for j` nest with `result_step`/`coo_indices`.
Values: `torch.bmm` + `scatter_add_` is `blockSum` (sum of the selected block products, in emission order).
No scalar class is needed here: blocks are an arbitrary type with `zero`, `add`, `mul`.
-/
namespace PP.SparseMM

/-- `while row[k2] < c and k2 < hi - 1: k2 += 1` (`fuel ≥ hi - k2` always suffices) -/
def advance (row : Nat → Nat) (c hi : Nat) : Nat → Nat → Nat
  | 0, k2 => k2
  | fuel+1, k2 => if row k2 < c ∧ k2 + 1 < hi then advance row c hi fuel (k2 + 1) else k2

/-- the `for k1 in range(crow[i], crow[i+1])` loop for one `(i, j)`; `hi = ccol[j+1]`, `k2` is the
running pointer; returns the matched `(k1, k2)` pairs (`source`) in emission order. -/
def joinRow (col row : Nat → Nat) (hi : Nat) : List Nat → Nat → List (Nat × Nat)
  | [], _ => []
  | k1 :: rest, k2 =>
    if k2 = hi then []      -- `if k2 == ccol[j+1]: break`
    else
      let k2' := advance row (col k1) hi (hi - k2) k2
      if row k2' = col k1 then (k1, k2') :: joinRow col row hi rest k2'
      else joinRow col row hi rest k2'

/-- matched pairs of block row `i` of the BSR operand with block column `j` of the BSC operand -/
def joinIJ (crow col ccol row : Nat → Nat) (i j : Nat) : List (Nat × Nat) :=
  joinRow col row (ccol (j+1)) (List.range' (crow i) (crow (i+1) - crow i)) (ccol j)

/-- the `for i in range(sm): for j in range(sp):` nest: the emitted result blocks `(i, j, pairs)` in
emission order (`nz` ⇔ `pairs ≠ []`; `result_step` is the position in this list). -/
def joinAll (sm sp : Nat) (crow col ccol row : Nat → Nat) : List (Nat × Nat × List (Nat × Nat)) :=
  (List.range sm).flatMap fun i =>
    (List.range sp).filterMap fun j =>
      let ps := joinIJ crow col ccol row i j
      if ps.isEmpty then none else some (i, j, ps)

/-- `reduced[result_step] = Σ bmm(csr_values[k1], csc_values[k2])` over the pairs of that step -/
def blockSum {β₁ β₂ β₃ : Type} (zero : β₃) (add : β₃ → β₃ → β₃) (mul : β₁ → β₂ → β₃)
    (va : Nat → β₁) (vb : Nat → β₂) (ps : List (Nat × Nat)) : β₃ :=
  ps.foldl (fun acc p => add acc (mul (va p.1) (vb p.2))) zero

/-- crow indices of the result: `dummy.coalesce().to_sparse_csr()` of the emitted `(i, j)` list -/
def resultCrow (sm : Nat) (blocks : List (Nat × Nat × List (Nat × Nat))) : List Nat :=
  (List.range (sm + 1)).map fun i => (blocks.filter fun b => b.1 < i).length

/-- the whole of `bsr_bsc_matmul` at block level: `(crow, col, values)` of the BSR result -/
def bsrBscMatmul {β₁ β₂ β₃ : Type} (zero : β₃) (add : β₃ → β₃ → β₃) (mul : β₁ → β₂ → β₃)
    (sm sp : Nat) (crow col : Nat → Nat) (va : Nat → β₁) (ccol row : Nat → Nat) (vb : Nat → β₂) :
    List Nat × List Nat × List β₃ :=
  let blocks := joinAll sm sp crow col ccol row
  (resultCrow sm blocks, blocks.map (·.2.1), blocks.map fun b => blockSum zero add mul va vb b.2.2)

/-- argument checks of `bsr_bsc_matmul` in source order: `assert bsr.shape[-1] == bsc.shape[-2]`, block-grid sizes
`sm, sn, sp = m // dm, n // dn, p // dp` with the divisibility assertions, and `torch.bmm`'s own requirement that the
inner block sizes agree.  Returns the block grid `(sm, sn, sp)`. -/
def bsrBscGuard (m n n' p dm dn dn' dp : Nat) : Except String (Nat × Nat × Nat) :=
  if n ≠ n' then .error "assert:inner-dimension"
  else if dm * (m / dm) ≠ m ∨ dn * (n / dn) ≠ n ∨ dp * (p / dp) ≠ p then .error "assert:block-divisibility"
  else if dn ≠ dn' then .error "bmm:inner-block-size"
  else .ok (m / dm, n / dn, p / dp)

/-! ## dense semantics of the compressed formats (what `.to_dense()` means, block-wise) -/

/-- plain index of block `(i, c)` in a compressed-row structure, if stored -/
def findIdx (ptr idx : Nat → Nat) (i c : Nat) : Option Nat :=
  (List.range' (ptr i) (ptr (i+1) - ptr i)).find? fun k1 => idx k1 = c

/-- block `(i, c)` of the dense matrix -/
def getBlock {β : Type} (zero : β) (ptr idx : Nat → Nat) (vals : Nat → β) (i c : Nat) : β :=
  match findIdx ptr idx i c with
  | some k1 => vals k1
  | none => zero

/-! ## `_sparse_csr_mm` layout dispatch -/

inductive Layout | strided | coo | csr | csc | bsr | bsc
deriving DecidableEq, Repr

inductive Route
  /-- `bsr_bsc_matmul(mat1, mat2)` -/
  | mergeJoin
  /-- `raise NotImplemented` (a `TypeError`) -/
  | raiseNotImplemented
  /-- `torch.addmm(zero_csr, mat1, mat2)` on two CSR operands -/
  | addmmCsr
  /-- convert both operands `to_sparse_csr()` and recurse -/
  | convertBoth
  /-- convert `mat1.to_sparse_csr()` and recurse (csc × strided) -/
  | convertLeft
  /-- `torch.addmm(zero_dense, mat1, mat2)` with a strided right operand (torch decides support) -/
  | addmmDense
  /-- last branch: `zero` is a 1-tuple (trailing comma), `torch.addmm(tuple, …)` raises `TypeError`;
  for block layouts `torch.zeros(layout=…)` raises before that -/
  | raiseTuple
deriving DecidableEq, Repr

open Layout Route in
/-- the `if` cascade of `_sparse_csr_mm`, in source order -/
def dispatch (l1 l2 : Layout) : Route :=
  if l1 = bsr ∧ l2 = bsc then mergeJoin
  else if l1 = bsc ∧ l2 = bsr then raiseNotImplemented
  else if l1 = csr ∧ l2 = csr then addmmCsr
  else if (l1 = csc ∨ l1 = csr) ∧ (l2 = csc ∨ l2 = csr) then convertBoth
  else if l1 = csc ∧ l2 = strided then convertLeft
  else if l2 = strided then addmmDense
  else raiseTuple

/-- layouts after the conversion step of a `convert…` route -/
def Route.next (r : Route) (l1 l2 : Layout) : Layout × Layout :=
  match r with
  | .convertBoth => (.csr, .csr)
  | .convertLeft => (.csr, l2)
  | _ => (l1, l2)

/-- final route after following conversions (`fuel = 2` suffices: `dispatch_terminates`) -/
def finalRoute : Nat → Layout → Layout → Route
  | 0, l1, l2 => dispatch l1 l2
  | f+1, l1, l2 =>
    match dispatch l1 l2 with
    | .convertBoth => finalRoute f .csr .csr
    | .convertLeft => finalRoute f .csr l2
    | r => r

end PP.SparseMM
