import Proofs.Real
import Pose.Model.LinSolve
import Mathlib.Algebra.BigOperators.Group.Finset.Basic
import Mathlib.Algebra.BigOperators.Intervals
import Mathlib.Algebra.BigOperators.Ring.Finset
import Mathlib.Algebra.Order.BigOperators.Ring.Finset
/-!
# Lemmas for C10 (linear solvers): tabulation, sums, triangular solves, Cholesky, CG invariant
All statements are about the model of `Pose/Model/LinSolve.lean` at `α = ℝ`.
-/
namespace PP.LinSolve
open Finset

/-! ## tabulation reads back the function -/

theorem tab_get (n : Nat) (f : Nat → ℝ) (i : Nat) : (tab n f).get i = if i < n then f i else 0 := by
  unfold tab Tab.get
  rw [Array.getD_eq_getD_getElem?]
  by_cases h : i < n <;> simp [h]

theorem tab_get_lt {n : Nat} (f : Nat → ℝ) {i : Nat} (h : i < n) : (tab n f).get i = f i := by
  rw [tab_get]; simp [h]

theorem tab_get_ge {n : Nat} (f : Nat → ℝ) {i : Nat} (h : n ≤ i) : (tab n f).get i = 0 := by
  rw [tab_get]; simp [Nat.not_lt.mpr h]

theorem tab2_get (n m : Nat) (f : Nat → Nat → ℝ) (i j : Nat) :
    (tab2 n m f).get i j = if i < n ∧ j < m then f i j else 0 := by
  unfold tab2 Tab2.get
  rw [Array.getD_eq_getD_getElem?]
  by_cases h : i < n
  · simp only [h, Array.getElem?_ofFn, true_and]
    simp only [dite_true, Option.getD_some]
    exact tab_get m (f i) j
  · simp [h, Tab.get]

/-! ## `sumN` is the finite sum -/

theorem sumN_eq (n : Nat) (f : Nat → ℝ) : sumN n f = ∑ i ∈ range n, f i := by
  induction n with
  | zero => simp [sumN]
  | succ n ih => rw [sumN, ih, sum_range_succ]

theorem dot_eq (n : Nat) (u v : Nat → ℝ) : dot n u v = ∑ i ∈ range n, u i * v i := by
  unfold dot; rw [sumN_eq]

theorem matVec_eq (m : Nat) (A : Nat → Nat → ℝ) (v : Nat → ℝ) (i : Nat) :
    matVec m A v i = ∑ j ∈ range m, A i j * v j := by
  unfold matVec; rw [sumN_eq]

theorem matMul_eq (m : Nat) (A B : Nat → Nat → ℝ) (i j : Nat) :
    matMul m A B i j = ∑ t ∈ range m, A i t * B t j := by
  unfold matMul; rw [sumN_eq]

/-! ## forward substitution -/

theorem fwdSub_get_ge (L : Nat → Nat → ℝ) (a : Nat → ℝ) (i j : Nat) (h : i ≤ j) :
    (fwdSub L a i).get j = 0 := by
  cases i with
  | zero => unfold fwdSub; exact tab_get_ge _ h
  | succ i => unfold fwdSub; exact tab_get_ge _ h

theorem fwdSub_succ_get_lt (L : Nat → Nat → ℝ) (a : Nat → ℝ) (i j : Nat) (h : j < i) :
    (fwdSub L a (i+1)).get j = (fwdSub L a i).get j := by
  conv_lhs => unfold fwdSub
  rw [tab_get_lt _ (by omega)]
  simp [h]

theorem fwdSub_succ_get_self (L : Nat → Nat → ℝ) (a : Nat → ℝ) (i : Nat) :
    (fwdSub L a (i+1)).get i = (a i - ∑ t ∈ range i, L i t * (fwdSub L a i).get t) / L i i := by
  conv_lhs => unfold fwdSub
  rw [tab_get_lt _ (by omega)]
  simp [sumN_eq]

theorem fwdSub_stable (L : Nat → Nat → ℝ) (a : Nat → ℝ) (j m : Nat) (h : j < m) :
    (fwdSub L a m).get j = (fwdSub L a (j+1)).get j := by
  induction m with
  | zero => omega
  | succ m ih =>
    by_cases hjm : j < m
    · rw [fwdSub_succ_get_lt L a m j hjm, ih hjm]
    · have : j = m := by omega
      subst this; rfl

/-- row `i` of `L w = a` holds for the computed `w` (only the diagonal entry must be non-zero) -/
theorem fwdSub_solves (L : Nat → Nat → ℝ) (a : Nat → ℝ) (n i : Nat) (hi : i < n) (hd : L i i ≠ 0) :
    ∑ t ∈ range (i+1), L i t * (fwdSub L a n).get t = a i := by
  rw [sum_range_succ]
  have h1 : ∀ t ∈ range i, L i t * (fwdSub L a n).get t = L i t * (fwdSub L a i).get t := by
    intro t ht
    have ht' : t < i := mem_range.mp ht
    rw [fwdSub_stable L a t n (by omega), fwdSub_stable L a t i ht']
  rw [sum_congr rfl h1, fwdSub_stable L a i n hi, fwdSub_succ_get_self]
  field_simp
  ring

/-- for lower-triangular `L` the full row sum -/
theorem fwdSub_solves_full (L : Nat → Nat → ℝ) (a : Nat → ℝ) (n i : Nat) (hi : i < n) (hd : L i i ≠ 0)
    (hup : ∀ i j, i < j → L i j = 0) :
    ∑ t ∈ range n, L i t * (fwdSub L a n).get t = a i := by
  rw [← fwdSub_solves L a n i hi hd]
  symm
  apply sum_subset
  · intro t ht; simp only [mem_range] at *; omega
  · intro t ht hnt
    simp only [mem_range] at *
    rw [hup i t (by omega)]; ring

/-! ## back substitution -/

theorem bwdSub_succ_get_ne (n : Nat) (L : Nat → Nat → ℝ) (y : Nat → ℝ) (c j : Nat)
    (h : j ≠ n - (c+1)) : (bwdSub n L y (c+1)).get j = (bwdSub n L y c).get j := by
  by_cases hj : j < n
  · conv_lhs => unfold bwdSub
    rw [tab_get_lt _ hj]
    simp [h]
  · have e1 : (bwdSub n L y (c+1)).get j = 0 := by unfold bwdSub; exact tab_get_ge _ (by omega)
    have e2 : (bwdSub n L y c).get j = 0 := by
      cases c with
      | zero => unfold bwdSub; exact tab_get_ge _ (by omega)
      | succ c => unfold bwdSub; exact tab_get_ge _ (by omega)
    rw [e1, e2]

theorem bwdSub_succ_get_self (n : Nat) (L : Nat → Nat → ℝ) (y : Nat → ℝ) (c : Nat) (hc : c < n) :
    (bwdSub n L y (c+1)).get (n - (c+1)) =
      (y (n - (c+1)) - ∑ t ∈ range n, if n - (c+1) < t then L t (n - (c+1)) * (bwdSub n L y c).get t else 0)
        / L (n - (c+1)) (n - (c+1)) := by
  conv_lhs => unfold bwdSub
  rw [tab_get_lt _ (by omega)]
  simp [sumN_eq]

theorem bwdSub_stable (n : Nat) (L : Nat → Nat → ℝ) (y : Nat → ℝ) (c m j : Nat)
    (hjc : n - c ≤ j) (hcm : c ≤ m) (hm : m ≤ n) :
    (bwdSub n L y m).get j = (bwdSub n L y c).get j := by
  induction m with
  | zero => have : c = 0 := by omega
            subst this; rfl
  | succ m ih =>
    by_cases hc : c = m + 1
    · subst hc; rfl
    · rw [bwdSub_succ_get_ne n L y m j (by omega), ih (by omega) (by omega)]

/-- row `i` of `Lᵀ x = y` holds for the computed `x` -/
theorem bwdSub_solves (n : Nat) (L : Nat → Nat → ℝ) (y : Nat → ℝ) (i : Nat) (hi : i < n) (hd : L i i ≠ 0) :
    L i i * (bwdSub n L y n).get i
      + ∑ t ∈ range n, (if i < t then L t i * (bwdSub n L y n).get t else 0) = y i := by
  obtain ⟨c, hc⟩ : ∃ c, c = n - 1 - i := ⟨_, rfl⟩
  have hi' : i = n - (c+1) := by omega
  have hcn : c < n := by omega
  have h1 : ∀ t ∈ range n, (if i < t then L t i * (bwdSub n L y n).get t else 0)
      = (if i < t then L t i * (bwdSub n L y c).get t else 0) := by
    intro t _
    by_cases hit : i < t
    · simp only [hit, if_true]
      rw [bwdSub_stable n L y c n t (by omega) (by omega) (le_refl n)]
    · simp [hit]
  rw [sum_congr rfl h1, bwdSub_stable n L y (c+1) n i (by omega) (by omega) (le_refl n)]
  have h2 := bwdSub_succ_get_self n L y c hcn
  rw [← hi'] at h2
  rw [h2]
  field_simp
  ring

/-- for lower-triangular `L` the full column sum `Σ_t L t i · x t = y i` -/
theorem bwdSub_solves_full (n : Nat) (L : Nat → Nat → ℝ) (y : Nat → ℝ) (i : Nat) (hi : i < n) (hd : L i i ≠ 0)
    (hup : ∀ i j, i < j → L i j = 0) :
    ∑ t ∈ range n, L t i * (bwdSub n L y n).get t = y i := by
  rw [← bwdSub_solves n L y i hi hd]
  have hsplit : ∀ t ∈ range n, L t i * (bwdSub n L y n).get t =
      (if t = i then L i i * (bwdSub n L y n).get i else 0)
        + (if i < t then L t i * (bwdSub n L y n).get t else 0) := by
    intro t _
    rcases Nat.lt_trichotomy t i with h | h | h
    · rw [hup t i h]; simp [Nat.ne_of_lt h, Nat.not_lt.mpr (Nat.le_of_lt h)]
    · subst h; simp
    · simp [Nat.ne_of_gt h, h]
  rw [sum_congr rfl hsplit, sum_add_distrib, sum_ite_eq' (range n) i]
  simp [hi]

structure IsChol (n : Nat) (A L : Nat → Nat → ℝ) : Prop where
  upper : ∀ i j, i < j → L i j = 0
  pos : ∀ i, i < n → 0 < L i i
  prod : ∀ i j, i < n → j ≤ i → ∑ t ∈ range n, L i t * L j t = A i j

theorem isChol_extend (A L : Nat → Nat → ℝ) (n : Nat) (w : Nat → ℝ) (d : ℝ) (IH : IsChol n A L)
    (hw : ∀ j, j < n → ∑ t ∈ range n, L j t * w t = A n j) (hd : 0 < d)
    (hdd : ∑ t ∈ range n, w t * w t + d * d = A n n) (L' : Nat → Nat → ℝ)
    (hL' : ∀ a t, L' a t = if a < n + 1 ∧ t < n + 1 then (if a = n then (if t = n then d else w t) else L a t) else 0) :
    IsChol (n+1) A L' := by
  refine ⟨?_, ?_, ?_⟩
  · intro i j hij
    rw [hL']
    by_cases hb : i < n + 1 ∧ j < n + 1
    · rw [if_pos hb, if_neg (by omega)]
      exact IH.upper i j hij
    · rw [if_neg hb]
  · intro i hi
    rw [hL', if_pos ⟨hi, hi⟩]
    by_cases hin : i = n
    · rw [if_pos hin, if_pos hin]; exact hd
    · rw [if_neg hin]; exact IH.pos i (by omega)
  · intro i j hi hji
    have hsum : ∀ t ∈ range (n+1), L' i t * L' j t =
        (if i = n then (if t = n then d else w t) else L i t) * (if j = n then (if t = n then d else w t) else L j t) := by
      intro t ht
      have ht' := mem_range.mp ht
      have hj' : j < n + 1 := by omega
      rw [hL' i t, hL' j t, if_pos (And.intro hi ht'), if_pos (And.intro hj' ht')]
    rw [sum_congr rfl hsum, sum_range_succ]
    by_cases hin : i = n
    · subst hin
      by_cases hjn : j = i
      · subst hjn
        simp only [if_true]
        have e : ∀ t ∈ range j, (if t = j then d else w t) * (if t = j then d else w t) = w t * w t := by
          intro t ht
          have : t ≠ j := Nat.ne_of_lt (mem_range.mp ht)
          simp [this]
        rw [sum_congr rfl e, hdd]
      · have hjlt : j < i := by omega
        simp only [if_true, if_neg hjn]
        have e : ∀ t ∈ range i, (if t = i then d else w t) * L j t = L j t * w t := by
          intro t ht
          have : t ≠ i := Nat.ne_of_lt (mem_range.mp ht)
          simp [this, mul_comm]
        rw [sum_congr rfl e, hw j hjlt, IH.upper j i hjlt]
        ring
    · have hilt : i < n := by omega
      have hjn : j ≠ n := by omega
      simp only [if_neg hin, if_neg hjn]
      rw [IH.prod i j hilt hji, IH.upper i n hilt]
      ring

theorem chol_sound (A : Nat → Nat → ℝ) : ∀ (n : Nat) (L : Tab2 ℝ), chol A n = .ok L → IsChol n A L.get := by
  intro n
  induction n with
  | zero =>
    intro L h
    simp only [chol, Except.ok.injEq] at h
    subst h
    refine ⟨fun i j _ => ?_, fun i hi => by omega, fun i j hi => by omega⟩
    rw [tab2_get]; simp
  | succ n ih =>
    intro L' h
    rw [chol] at h
    cases hc : chol A n with
    | error e => rw [hc] at h; simp at h
    | ok L =>
      rw [hc] at h
      simp only [lt_real, k_real, Nat.cast_zero, decide_eq_true_eq, sumN_eq, sqrt_real] at h
      have IH := ih L hc
      generalize hw : fwdSub L.get (fun j => A n j) n = w at h
      by_cases hd : 0 < A n n - ∑ t ∈ range n, w.get t * w.get t
      · rw [if_pos hd, Except.ok.injEq] at h
        subst h
        have hwsolve : ∀ j, j < n → ∑ t ∈ range n, L.get j t * w.get t = A n j := by
          intro j hj
          rw [← hw]
          exact fwdSub_solves_full L.get (fun j => A n j) n j hj (IH.pos j hj).ne' IH.upper
        apply isChol_extend A L.get n w.get (√(A n n - ∑ t ∈ range n, w.get t * w.get t)) IH hwsolve
          (Real.sqrt_pos.mpr hd)
        · rw [Real.mul_self_sqrt (le_of_lt hd)]; ring
        · intro a t; exact tab2_get _ _ _ a t
      · rw [if_neg hd] at h; simp at h

/-- symmetric positive definite on the indices `< n` -/
structure IsSPD (n : Nat) (A : Nat → Nat → ℝ) : Prop where
  symm : ∀ i j, i < n → j < n → A i j = A j i
  pos : ∀ v : Nat → ℝ, (∃ i, i < n ∧ v i ≠ 0) → 0 < ∑ i ∈ range n, ∑ j ∈ range n, v i * A i j * v j

theorem IsChol.prod_full {n : Nat} {A L : Nat → Nat → ℝ} (h : IsChol n A L)
    (hs : ∀ i j, i < n → j < n → A i j = A j i) (i j : Nat) (hi : i < n) (hj : j < n) :
    ∑ t ∈ range n, L i t * L j t = A i j := by
  by_cases hji : j ≤ i
  · exact h.prod i j hi hji
  · rw [hs i j hi hj, ← h.prod j i hj (by omega)]
    exact sum_congr rfl fun t _ => mul_comm _ _

/-- `vᵀ (L Lᵀ) v = ‖Lᵀ v‖²` -/
theorem quad_form (n : Nat) (A L : Nat → Nat → ℝ) (v : Nat → ℝ)
    (h : ∀ i j, i < n → j < n → ∑ t ∈ range n, L i t * L j t = A i j) :
    ∑ i ∈ range n, ∑ j ∈ range n, v i * A i j * v j = ∑ t ∈ range n, (∑ i ∈ range n, L i t * v i) ^ 2 := by
  have e1 : ∀ t ∈ range n, (∑ i ∈ range n, L i t * v i) ^ 2
      = ∑ i ∈ range n, ∑ j ∈ range n, (L i t * v i) * (L j t * v j) := by
    intro t _
    rw [pow_two, sum_mul_sum]
  symm
  calc ∑ t ∈ range n, (∑ i ∈ range n, L i t * v i) ^ 2
      = ∑ t ∈ range n, ∑ i ∈ range n, ∑ j ∈ range n, (L i t * v i) * (L j t * v j) := sum_congr rfl e1
    _ = ∑ i ∈ range n, ∑ t ∈ range n, ∑ j ∈ range n, (L i t * v i) * (L j t * v j) := sum_comm
    _ = ∑ i ∈ range n, ∑ j ∈ range n, ∑ t ∈ range n, (L i t * v i) * (L j t * v j) :=
        sum_congr rfl fun i _ => sum_comm
    _ = ∑ i ∈ range n, ∑ j ∈ range n, v i * A i j * v j := by
        apply sum_congr rfl
        intro i hi
        apply sum_congr rfl
        intro j hj
        rw [← h i j (mem_range.mp hi) (mem_range.mp hj), mul_sum, sum_mul]
        apply sum_congr rfl
        intro t _
        ring

/-- a lower-triangular matrix with non-zero diagonal has trivial left kernel: `Lᵀ v = 0 ⟹ v = 0` -/
theorem tri_inj (n : Nat) (L : Nat → Nat → ℝ) (v : Nat → ℝ) (hup : ∀ i j, i < j → L i j = 0)
    (hd : ∀ i, i < n → L i i ≠ 0) (h0 : ∀ t, t < n → ∑ i ∈ range n, L i t * v i = 0) :
    ∀ i, i < n → v i = 0 := by
  have key : ∀ c, c ≤ n → ∀ i, n - c ≤ i → i < n → v i = 0 := by
    intro c
    induction c with
    | zero => intro _ i h1 h2; omega
    | succ c ih =>
      intro hc i h1 h2
      by_cases hi : n - c ≤ i
      · exact ih (by omega) i hi h2
      · have hs := h0 i h2
        rw [sum_eq_single i] at hs
        · rcases mul_eq_zero.mp hs with h | h
          · exact absurd h (hd i h2)
          · exact h
        · intro s hs' hsi
          rcases Nat.lt_or_gt_of_ne hsi with h | h
          · rw [hup s i h]; ring
          · rw [ih (by omega) s (by omega) (mem_range.mp hs')]; ring
        · intro h; exact absurd (mem_range.mpr h2) h
  intro i hi
  exact key n (le_refl n) i (by omega) hi

/-- a symmetric matrix with a Cholesky factor is positive definite -/
theorem IsChol.spd {n : Nat} {A L : Nat → Nat → ℝ} (h : IsChol n A L)
    (hs : ∀ i j, i < n → j < n → A i j = A j i) : IsSPD n A := by
  refine ⟨hs, ?_⟩
  intro v hv
  rw [quad_form n A L v (fun i j hi hj => h.prod_full hs i j hi hj)]
  have hnn : ∀ t ∈ range n, 0 ≤ (∑ i ∈ range n, L i t * v i) ^ 2 := fun t _ => sq_nonneg _
  rcases (sum_nonneg hnn).lt_or_eq with hlt | heq
  · exact hlt
  · exfalso
    have hz := (sum_eq_zero_iff_of_nonneg hnn).mp heq.symm
    have h0 : ∀ t, t < n → ∑ i ∈ range n, L i t * v i = 0 := by
      intro t ht
      have := hz t (mem_range.mpr ht)
      exact pow_eq_zero_iff (two_ne_zero) |>.mp this
    obtain ⟨i, hi, hvi⟩ := hv
    exact hvi (tri_inj n L v h.upper (fun i hi => (h.pos i hi).ne') h0 i hi)

/-- `cholesky_solve`: the computed `x` satisfies `A x = b` -/
theorem cholSolve_correct (n : Nat) (A L : Nat → Nat → ℝ) (b : Nat → ℝ) (h : IsChol n A L)
    (hs : ∀ i j, i < n → j < n → A i j = A j i) (i : Nat) (hi : i < n) :
    ∑ j ∈ range n, A i j * (cholSolve n L b).get j = b i := by
  unfold cholSolve
  set w := fwdSub L b n with hw
  set x := bwdSub n L w.get n with hx
  have e1 : ∀ j ∈ range n, A i j * x.get j = ∑ t ∈ range n, L i t * (L j t * x.get j) := by
    intro j hj
    rw [← h.prod_full hs i j hi (mem_range.mp hj), sum_mul]
    exact sum_congr rfl fun t _ => by ring
  rw [sum_congr rfl e1, sum_comm]
  have e2 : ∀ t ∈ range n, ∑ j ∈ range n, L i t * (L j t * x.get j) = L i t * w.get t := by
    intro t ht
    rw [← mul_sum, hx, bwdSub_solves_full n L w.get t (mem_range.mp ht) (h.pos t (mem_range.mp ht)).ne' h.upper]
  rw [sum_congr rfl e2, hw]
  exact fwdSub_solves_full L b n i hi (h.pos i hi).ne' h.upper

/-- leading principal submatrices of an SPD matrix are SPD -/
theorem IsSPD.pred {n : Nat} {A : Nat → Nat → ℝ} (h : IsSPD (n+1) A) : IsSPD n A := by
  refine ⟨fun i j hi hj => h.symm i j (by omega) (by omega), ?_⟩
  intro v hv
  obtain ⟨i0, hi0, hvi0⟩ := hv
  have hp := h.pos (fun i => if i < n then v i else 0) ⟨i0, by omega, by simp [hi0, hvi0]⟩
  rw [sum_range_succ] at hp
  simp only [lt_irrefl, if_false, zero_mul, sum_const_zero, add_zero] at hp
  have e : ∀ i ∈ range n, ∑ j ∈ range (n+1), (if i < n then v i else 0) * A i j * (if j < n then v j else 0)
      = ∑ j ∈ range n, v i * A i j * v j := by
    intro i hi
    rw [sum_range_succ]
    simp only [lt_irrefl, if_false, mul_zero, add_zero, if_pos (mem_range.mp hi)]
    apply sum_congr rfl
    intro j hj
    rw [if_pos (mem_range.mp hj)]
  rwa [sum_congr rfl e] at hp

/-- **Completeness**: on a symmetric positive definite matrix the factorisation never fails. -/
theorem chol_complete (A : Nat → Nat → ℝ) : ∀ n, IsSPD n A → ∃ L, chol A n = .ok L := by
  intro n
  induction n with
  | zero => intro _; exact ⟨_, rfl⟩
  | succ n ih =>
    intro hA
    obtain ⟨L, hL⟩ := ih hA.pred
    have IH := chol_sound A n L hL
    have hsymm : ∀ i j, i < n → j < n → A i j = A j i := fun i j hi hj => hA.symm i j (by omega) (by omega)
    rw [chol, hL]
    simp only [lt_real, k_real, Nat.cast_zero, decide_eq_true_eq, sumN_eq, sqrt_real]
    generalize hw : fwdSub L.get (fun j => A n j) n = w
    have hwsolve : ∀ j, j < n → ∑ t ∈ range n, L.get j t * w.get t = A n j := by
      intro j hj
      rw [← hw]
      exact fwdSub_solves_full L.get (fun j => A n j) n j hj (IH.pos j hj).ne' IH.upper
    -- x solves Lᵀ x = w
    set x := bwdSub n L.get w.get n with hx
    have hxsolve : ∀ t, t < n → ∑ s ∈ range n, L.get s t * x.get s = w.get t := by
      intro t ht
      exact bwdSub_solves_full n L.get w.get t ht (IH.pos t ht).ne' IH.upper
    have hq := hA.pos (fun i => if i < n then x.get i else -1) ⟨n, by omega, by simp⟩
    suffices hd : 0 < A n n - ∑ t ∈ range n, w.get t * w.get t by
      rw [if_pos hd]; exact ⟨_, rfl⟩
    -- expand the quadratic form
    have e1 : ∀ i ∈ range n, ∑ j ∈ range (n+1), (if i < n then x.get i else -1) * A i j * (if j < n then x.get j else -1)
        = ∑ j ∈ range n, x.get i * A i j * x.get j - x.get i * A n i := by
      intro i hi
      have hi' := mem_range.mp hi
      rw [sum_range_succ]
      simp only [lt_irrefl, if_false, if_pos hi']
      rw [hA.symm i n (by omega) (by omega)]
      have : ∀ j ∈ range n, x.get i * A i j * (if j < n then x.get j else -1) = x.get i * A i j * x.get j := by
        intro j hj; rw [if_pos (mem_range.mp hj)]
      rw [sum_congr rfl this]; ring
    have e2 : ∑ j ∈ range (n+1), (-1 : ℝ) * A n j * (if j < n then x.get j else -1)
        = A n n - ∑ j ∈ range n, x.get j * A n j := by
      rw [sum_range_succ]
      simp only [lt_irrefl, if_false]
      have : ∀ j ∈ range n, (-1 : ℝ) * A n j * (if j < n then x.get j else -1) = -(x.get j * A n j) := by
        intro j hj; rw [if_pos (mem_range.mp hj)]; ring
      rw [sum_congr rfl this, sum_neg_distrib]; ring
    rw [sum_range_succ, sum_congr rfl e1] at hq
    simp only [lt_irrefl, if_false] at hq
    rw [e2, sum_sub_distrib] at hq
    -- the three pieces
    have q1 : ∑ i ∈ range n, ∑ j ∈ range n, x.get i * A i j * x.get j = ∑ t ∈ range n, w.get t * w.get t := by
      rw [quad_form n A L.get x.get (fun i j hi hj => IH.prod_full hsymm i j hi hj)]
      apply sum_congr rfl
      intro t ht
      rw [hxsolve t (mem_range.mp ht)]; ring
    have q2 : ∑ i ∈ range n, x.get i * A n i = ∑ t ∈ range n, w.get t * w.get t := by
      have : ∀ i ∈ range n, x.get i * A n i = ∑ t ∈ range n, w.get t * (L.get i t * x.get i) := by
        intro i hi
        rw [← hwsolve i (mem_range.mp hi), mul_sum]
        exact sum_congr rfl fun t _ => by ring
      rw [sum_congr rfl this, sum_comm]
      apply sum_congr rfl
      intro t ht
      rw [← mul_sum, hxsolve t (mem_range.mp ht)]
    rw [q1, q2] at hq
    linarith

/-- the recurrence residual is the true residual: `r = b - A x` on the indices `< n` -/
def ResidOK (n : Nat) (A : Nat → Nat → ℝ) (b : Nat → ℝ) (s : CGState ℝ) : Prop :=
  ∀ i, i < n → s.r.get i = b i - ∑ j ∈ range n, A i j * s.x.get j

theorem cgStep_form (n : Nat) (A : Nat → Nat → ℝ) (M : Option (Nat → Nat → ℝ)) (s : CGState ℝ) :
    ∃ (alpha : ℝ) (p : Tab ℝ),
      (cgStep n A M s).x = tab n (fun i => s.x.get i + alpha * p.get i) ∧
      (cgStep n A M s).r = tab n (fun i => s.r.get i - alpha * (tab n (matVec n A p.get)).get i) :=
  ⟨_, _, rfl, rfl⟩

theorem cgStep_resid (n : Nat) (A : Nat → Nat → ℝ) (M : Option (Nat → Nat → ℝ)) (b : Nat → ℝ)
    (s : CGState ℝ) (h : ResidOK n A b s) : ResidOK n A b (cgStep n A M s) := by
  intro i hi
  obtain ⟨alpha, p, hx, hr⟩ := cgStep_form n A M s
  rw [hx, hr, tab_get_lt _ hi, tab_get_lt _ hi, h i hi, matVec_eq]
  have : ∀ j ∈ range n, A i j * (tab n fun i => s.x.get i + alpha * p.get i).get j
      = A i j * s.x.get j + alpha * (A i j * p.get j) := by
    intro j hj
    rw [tab_get_lt _ (mem_range.mp hj)]; ring
  rw [sum_congr rfl this, sum_add_distrib, ← mul_sum]
  ring

theorem cgStep_iter (n : Nat) (A : Nat → Nat → ℝ) (M : Option (Nat → Nat → ℝ)) (s : CGState ℝ) :
    (cgStep n A M s).iter = s.iter + 1 := rfl

theorem cgLoop_resid (n : Nat) (A : Nat → Nat → ℝ) (M : Option (Nat → Nat → ℝ)) (b : Nat → ℝ) (atol : ℝ) :
    ∀ (fuel : Nat) (s : CGState ℝ), ResidOK n A b s → ResidOK n A b (cgLoop n A M atol fuel s) := by
  intro fuel
  induction fuel with
  | zero => intro s h; exact h
  | succ f ih =>
    intro s h
    unfold cgLoop
    split
    · exact h
    · exact ih _ (cgStep_resid n A M b s h)

theorem cgLoop_iter_le (n : Nat) (A : Nat → Nat → ℝ) (M : Option (Nat → Nat → ℝ)) (atol : ℝ) :
    ∀ (fuel : Nat) (s : CGState ℝ), (cgLoop n A M atol fuel s).iter ≤ s.iter + fuel := by
  intro fuel
  induction fuel with
  | zero => intro s; exact le_refl _
  | succ f ih =>
    intro s
    unfold cgLoop
    split
    · simp
    · have := ih (cgStep n A M s)
      rw [cgStep_iter] at this
      omega

/-- whenever the loop takes its early `return x`, the stopping test held for the returned state -/
theorem cgLoop_stopped (n : Nat) (A : Nat → Nat → ℝ) (M : Option (Nat → Nat → ℝ)) (atol : ℝ) :
    ∀ (fuel : Nat) (s : CGState ℝ), s.stopped = false → (cgLoop n A M atol fuel s).stopped = true →
      norm n (cgLoop n A M atol fuel s).r.get < atol := by
  intro fuel
  induction fuel with
  | zero => intro s h1 h2; simp [cgLoop, h1] at h2
  | succ f ih =>
    intro s h1 h2
    unfold cgLoop at h2 ⊢
    split
    · rename_i hlt
      simpa using hlt
    · rename_i hlt
      rw [if_neg hlt] at h2
      exact ih _ rfl h2

/-! ## `norm`, `anyNonzero` -/

theorem norm_eq (n : Nat) (v : Nat → ℝ) : norm n v = √(∑ i ∈ range n, v i * v i) := by
  unfold norm; rw [sqrt_real, dot_eq]

theorem norm_congr (n : Nat) (u v : Nat → ℝ) (h : ∀ i, i < n → u i = v i) : norm n u = norm n v := by
  rw [norm_eq, norm_eq]
  congr 1
  exact sum_congr rfl fun i hi => by rw [h i (mem_range.mp hi)]

theorem sumsq_nonneg (n : Nat) (v : Nat → ℝ) : 0 ≤ ∑ i ∈ range n, v i * v i :=
  sum_nonneg fun i _ => mul_self_nonneg (v i)

/-- `‖v‖ = 0` (i.e. not `0 < ‖v‖`) iff `v` vanishes on the indices `< n` -/
theorem norm_pos_iff (n : Nat) (v : Nat → ℝ) : 0 < norm n v ↔ ∃ i, i < n ∧ v i ≠ 0 := by
  rw [norm_eq, Real.sqrt_pos]
  constructor
  · intro h
    by_contra hc
    push Not at hc
    have : ∑ i ∈ range n, v i * v i = 0 := sum_eq_zero fun i hi => by rw [hc i (mem_range.mp hi)]; ring
    linarith
  · rintro ⟨i, hi, hvi⟩
    have h1 : 0 < v i * v i := mul_self_pos.mpr hvi
    have h2 : v i * v i ≤ ∑ j ∈ range n, v j * v j :=
      single_le_sum (f := fun j => v j * v j) (fun j _ => mul_self_nonneg (v j)) (mem_range.mpr hi)
    linarith

theorem norm_zero_of (n : Nat) (v : Nat → ℝ) (h : ∀ i, i < n → v i = 0) : norm n v = 0 := by
  rw [norm_eq]
  have : ∑ i ∈ range n, v i * v i = 0 := sum_eq_zero fun i hi => by rw [h i (mem_range.mp hi)]; ring
  rw [this, Real.sqrt_zero]

theorem anyNonzero_false (n : Nat) (x : Nat → ℝ) (h : anyNonzero n x = false) : ∀ i, i < n → x i = 0 := by
  intro i hi
  unfold anyNonzero at h
  rw [List.any_eq_false] at h
  have := h i (List.mem_range.mpr hi)
  simp only [lt_real, k_real, Nat.cast_zero, Bool.or_eq_true, decide_eq_true_eq, not_or, not_lt] at this
  linarith [this.1, this.2]

/-! ## `CG.forward` -/

theorem cgForward_pos (n : Nat) (tol : ℝ) (maxiter : Option Nat) (A : Nat → Nat → ℝ) (b : Nat → ℝ)
    (x0 : Option (Nat → ℝ)) (M : Option (Nat → Nat → ℝ)) (hb : 0 < norm n b) :
    cgForward n tol maxiter A b x0 M = cgLoop n A M (tol * norm n b) (cgBudget n maxiter) (cgInit n A b x0) := by
  have hc : Scalar.lt (k 0) (norm n b) = true := by
    simp only [lt_real, k_real, Nat.cast_zero, decide_eq_true_eq]; exact hb
  unfold cgForward
  rw [if_pos hc]

theorem cgForward_zero' (n : Nat) (tol : ℝ) (maxiter : Option Nat) (A : Nat → Nat → ℝ) (b : Nat → ℝ)
    (x0 : Option (Nat → ℝ)) (M : Option (Nat → Nat → ℝ)) (hb : ¬ 0 < norm n b) :
    cgForward n tol maxiter A b x0 M =
      { x := tab n b, r := tab n b, p := tab n fun _ => k 0, rhoPrev := k 0, iter := 0, stopped := true } := by
  have hc : ¬ (Scalar.lt (k 0) (norm n b) = true) := by
    simp only [lt_real, k_real, Nat.cast_zero, decide_eq_true_eq]; exact hb
  unfold cgForward
  rw [if_neg hc]

theorem cgInit_resid (n : Nat) (A : Nat → Nat → ℝ) (b : Nat → ℝ) (x0 : Option (Nat → ℝ)) :
    ResidOK n A b (cgInit n A b x0) := by
  intro i hi
  have key : ∀ x : Tab ℝ, (if anyNonzero n x.get = true then tab n (fun i => b i - matVec n A x.get i) else tab n b).get i
      = b i - ∑ j ∈ range n, A i j * x.get j := by
    intro x
    by_cases hany : anyNonzero n x.get = true
    · rw [if_pos hany, tab_get_lt _ hi, matVec_eq]
    · rw [if_neg hany]
      have hz := anyNonzero_false n x.get (by simpa using hany)
      rw [tab_get_lt _ hi]
      have : ∑ j ∈ range n, A i j * x.get j = 0 :=
        sum_eq_zero fun j hj => by rw [hz j (mem_range.mp hj)]; ring
      rw [this]; ring
  unfold cgInit
  exact key _

/-- **Residual invariant of `CG.forward`**: whatever is returned, the recurrence residual carried by the loop is
the true residual `b - A x` of the returned `x`. -/
theorem cgForward_resid (n : Nat) (tol : ℝ) (maxiter : Option Nat) (A : Nat → Nat → ℝ) (b : Nat → ℝ)
    (x0 : Option (Nat → ℝ)) (M : Option (Nat → Nat → ℝ)) :
    ResidOK n A b (cgForward n tol maxiter A b x0 M) := by
  by_cases hb : 0 < norm n b
  · rw [cgForward_pos _ _ _ _ _ _ _ hb]
    exact cgLoop_resid n A M b _ _ _ (cgInit_resid n A b x0)
  · rw [cgForward_zero' _ _ _ _ _ _ _ hb]
    have hz : ∀ i, i < n → b i = 0 := by
      intro i hi
      by_contra hne
      exact hb ((norm_pos_iff n b).mpr ⟨i, hi, hne⟩)
    intro i hi
    simp only []
    rw [tab_get_lt _ hi]
    have : ∑ j ∈ range n, A i j * (tab n b).get j = 0 :=
      sum_eq_zero fun j hj => by rw [tab_get_lt _ (mem_range.mp hj), hz j (mem_range.mp hj)]; ring
    rw [this]; ring

theorem cgForward_iter_le (n : Nat) (tol : ℝ) (maxiter : Option Nat) (A : Nat → Nat → ℝ) (b : Nat → ℝ)
    (x0 : Option (Nat → ℝ)) (M : Option (Nat → Nat → ℝ)) :
    (cgForward n tol maxiter A b x0 M).iter ≤ cgBudget n maxiter := by
  by_cases hb : 0 < norm n b
  · rw [cgForward_pos _ _ _ _ _ _ _ hb]
    have := cgLoop_iter_le n A M (tol * norm n b) (cgBudget n maxiter) (cgInit n A b x0)
    simpa [cgInit] using this
  · rw [cgForward_zero' _ _ _ _ _ _ _ hb]; simp

/-- `b = 0 ↦ 0`: the right-hand side itself is returned, no pass is made, whatever the initial guess -/
theorem cgForward_zero (n : Nat) (tol : ℝ) (maxiter : Option Nat) (A : Nat → Nat → ℝ) (b : Nat → ℝ)
    (x0 : Option (Nat → ℝ)) (M : Option (Nat → Nat → ℝ)) (hb : ∀ i, i < n → b i = 0) :
    (∀ i, (cgForward n tol maxiter A b x0 M).x.get i = 0) ∧ (cgForward n tol maxiter A b x0 M).iter = 0 := by
  have h0 : ¬ 0 < norm n b := by rw [norm_zero_of n b hb]; exact lt_irrefl 0
  rw [cgForward_zero' _ _ _ _ _ _ _ h0]
  refine ⟨fun i => ?_, rfl⟩
  simp only []
  rw [tab_get]
  by_cases hi : i < n
  · rw [if_pos hi, hb i hi]
  · rw [if_neg hi]

/-- the early return certifies the TRUE residual: `‖b - A x‖ < tol ‖b‖` -/
theorem cgForward_certified (n : Nat) (tol : ℝ) (maxiter : Option Nat) (A : Nat → Nat → ℝ) (b : Nat → ℝ)
    (x0 : Option (Nat → ℝ)) (M : Option (Nat → Nat → ℝ)) (hb : ∃ i, i < n ∧ b i ≠ 0)
    (hs : (cgForward n tol maxiter A b x0 M).stopped = true) :
    norm n (fun i => b i - ∑ j ∈ range n, A i j * (cgForward n tol maxiter A b x0 M).x.get j) < tol * norm n b := by
  have hres := cgForward_resid n tol maxiter A b x0 M
  have hpos := (norm_pos_iff n b).mpr hb
  rw [norm_congr n _ (cgForward n tol maxiter A b x0 M).r.get (fun i hi => (hres i hi).symm)]
  rw [cgForward_pos _ _ _ _ _ _ _ hpos] at hs ⊢
  exact cgLoop_stopped n A M _ _ _ rfl hs

/-- only the lower triangle of `A` enters the notion of a Cholesky factor -/
theorem IsChol.congr {n : Nat} {A A' L : Nat → Nat → ℝ} (h : IsChol n A L)
    (hA : ∀ i j, i < n → j ≤ i → A i j = A' i j) : IsChol n A' L :=
  ⟨h.upper, h.pos, fun i j hi hji => by rw [← hA i j hi hji]; exact h.prod i j hi hji⟩

theorem chol_error_not_spd (A : Nat → Nat → ℝ) (n e : Nat) (h : chol A n = .error e) : ¬ IsSPD n A := by
  intro hs
  obtain ⟨L, hL⟩ := chol_complete A n hs
  rw [hL] at h
  cases h

/-- `info` of a failed factorisation is the order of a leading block: `1 ≤ info ≤ n` -/
theorem chol_error_range (A : Nat → Nat → ℝ) : ∀ n e, chol A n = .error e → 1 ≤ e ∧ e ≤ n := by
  intro n
  induction n with
  | zero => intro e h; simp [chol] at h
  | succ n ih =>
    intro e h
    rw [chol] at h
    cases hc : chol A n with
    | error e' =>
      rw [hc] at h
      simp only [Except.error.injEq] at h
      subst h
      have := ih e' hc
      omega
    | ok L =>
      rw [hc] at h
      simp only [] at h
      split at h
      · cases h
      · simp only [Except.error.injEq] at h
        omega

/-- symmetric on the indices `< n` -/
def IsSymm (n : Nat) (A : Nat → Nat → ℝ) : Prop := ∀ i j, i < n → j < n → A i j = A j i

theorem isSymm_transpose {n : Nat} {A : Nat → Nat → ℝ} (h : IsSymm n A) : IsSymm n (transpose A) :=
  fun i j hi hj => by unfold transpose; exact h j i hj hi

/-- the solution of an SPD system is unique -/
theorem spd_unique (n : Nat) (A : Nat → Nat → ℝ) (h : IsSPD n A) (x y : Nat → ℝ)
    (hxy : ∀ i, i < n → ∑ j ∈ range n, A i j * x j = ∑ j ∈ range n, A i j * y j) :
    ∀ i, i < n → x i = y i := by
  by_contra hc
  push Not at hc
  obtain ⟨i0, hi0, hne⟩ := hc
  have hp := h.pos (fun i => x i - y i) ⟨i0, hi0, sub_ne_zero.mpr hne⟩
  have : ∑ i ∈ range n, ∑ j ∈ range n, (x i - y i) * A i j * (x j - y j) = 0 := by
    apply sum_eq_zero
    intro i hi
    have e : ∑ j ∈ range n, (x i - y i) * A i j * (x j - y j)
        = (x i - y i) * (∑ j ∈ range n, A i j * x j - ∑ j ∈ range n, A i j * y j) := by
      rw [← sum_sub_distrib, mul_sum]
      exact sum_congr rfl fun j _ => by ring
    rw [e, hxy i (mem_range.mp hi)]; ring
  linarith

/-! ## the stand-in kernels satisfy the contract of `cholesky_ex` / `cholesky_solve` -/

/-- contract of the pair of kernels used by `Cholesky.forward` on symmetric input:
`info = 0` exactly on positive definite matrices, and then `cholesky_solve` with the returned factor solves
`A x = b`. -/
structure CholContract (n : Nat) (cholEx : (Nat → Nat → ℝ) → (Nat → Nat → ℝ) × Nat)
    (solveK : (Nat → Nat → ℝ) → (Nat → ℝ) → Tab ℝ) : Prop where
  info_iff : ∀ A, IsSymm n A → ((cholEx A).2 = 0 ↔ IsSPD n A)
  solves : ∀ A b, IsSymm n A → (cholEx A).2 = 0 →
    ∀ i, i < n → ∑ j ∈ range n, A i j * (solveK (cholEx A).1 b).get j = b i

theorem transpose_transpose (F : Nat → Nat → ℝ) : transpose (transpose F) = F := rfl

theorem isSPD_transpose {n : Nat} {A : Nat → Nat → ℝ} (hs : IsSymm n A) : IsSPD n (transpose A) ↔ IsSPD n A := by
  have key : ∀ B : Nat → Nat → ℝ, IsSymm n B → IsSPD n B → IsSPD n (transpose B) := by
    intro B hB h
    refine ⟨isSymm_transpose hB, fun v hv => ?_⟩
    have := h.pos v hv
    have e : ∑ i ∈ range n, ∑ j ∈ range n, v i * transpose B i j * v j
        = ∑ i ∈ range n, ∑ j ∈ range n, v i * B i j * v j := by
      apply sum_congr rfl; intro i hi
      apply sum_congr rfl; intro j hj
      unfold transpose
      rw [hB j i (mem_range.mp hj) (mem_range.mp hi)]
    rw [e]; exact this
  constructor
  · intro h
    have := key (transpose A) (isSymm_transpose hs) h
    rwa [transpose_transpose] at this
  · exact key A hs

theorem cholExStd_contract (n : Nat) (upper : Bool) :
    CholContract n (cholExStd n upper) (cholSolveStd n upper) := by
  constructor
  · intro A hs
    unfold cholExStd
    cases upper with
    | false =>
      simp only [Bool.false_eq_true, if_false]
      cases hc : chol A n with
      | error e =>
        simp only []
        have he := chol_error_range A n e hc
        constructor
        · intro h; omega
        · intro h; exact absurd h (chol_error_not_spd A n e hc)
      | ok L =>
        simp only [true_iff]
        exact (chol_sound A n L hc).spd hs
    | true =>
      simp only [if_true]
      cases hc : chol (transpose A) n with
      | error e =>
        simp only []
        have he := chol_error_range _ n e hc
        constructor
        · intro h; omega
        · intro h
          exact absurd ((isSPD_transpose hs).mpr h) (chol_error_not_spd _ n e hc)
      | ok L =>
        simp only [true_iff]
        exact (isSPD_transpose hs).mp ((chol_sound _ n L hc).spd (isSymm_transpose hs))
  · intro A b hs hinfo i hi
    unfold cholExStd cholSolveStd at *
    cases upper with
    | false =>
      simp only [Bool.false_eq_true, if_false] at hinfo ⊢
      cases hc : chol A n with
      | error e =>
        rw [hc] at hinfo
        have he := chol_error_range A n e hc
        simp only [] at hinfo
        omega
      | ok L =>
        simp only []
        exact cholSolve_correct n A L.get b (chol_sound A n L hc) hs i hi
    | true =>
      simp only [if_true] at hinfo ⊢
      cases hc : chol (transpose A) n with
      | error e =>
        rw [hc] at hinfo
        have he := chol_error_range _ n e hc
        simp only [] at hinfo
        omega
      | ok L =>
        simp only [transpose_transpose]
        have hch : IsChol n A L.get := (chol_sound _ n L hc).congr (fun i j hi hji => by
          unfold transpose; exact hs j i (by omega) hi)
        exact cholSolve_correct n A L.get b hch hs i hi

/-! ## `Cholesky.forward` under the kernel contract -/

theorem choleskyForward_ok_iff (cholEx : (Nat → Nat → ℝ) → (Nat → Nat → ℝ) × Nat)
    (solveK : (Nat → Nat → ℝ) → (Nat → ℝ) → Tab ℝ) (A : Nat → Nat → ℝ) (b : Nat → ℝ) :
    (∃ x, choleskyForward cholEx solveK A b = .ok x) ↔ (cholEx A).2 = 0 := by
  unfold choleskyForward
  simp only []
  by_cases h : (cholEx A).2 = 0
  · simp [h]
  · simp [h]

theorem choleskyForward_ok (cholEx : (Nat → Nat → ℝ) → (Nat → Nat → ℝ) × Nat)
    (solveK : (Nat → Nat → ℝ) → (Nat → ℝ) → Tab ℝ) (A : Nat → Nat → ℝ) (b : Nat → ℝ) (x : Tab ℝ)
    (h : choleskyForward cholEx solveK A b = .ok x) : (cholEx A).2 = 0 ∧ x = solveK (cholEx A).1 b := by
  unfold choleskyForward at h
  simp only [] at h
  by_cases h0 : (cholEx A).2 = 0
  · simp only [h0, ne_eq, not_true_eq_false, if_false, Except.ok.injEq] at h
    exact ⟨h0, h.symm⟩
  · simp [h0] at h

/-- **batched `Cholesky.forward`** under the kernel contract, all items symmetric: the call returns iff EVERY item is
positive definite; then every item is solved; a single non-PD item makes the whole call raise (no partially wrong
batch is ever returned). -/
theorem choleskyForwardBatch_spec (n : Nat) (cholEx : (Nat → Nat → ℝ) → (Nat → Nat → ℝ) × Nat)
    (solveK : (Nat → Nat → ℝ) → (Nat → ℝ) → Tab ℝ) (hK : CholContract n cholEx solveK)
    (items : List ((Nat → Nat → ℝ) × (Nat → ℝ))) (hs : ∀ it ∈ items, IsSymm n it.1) :
    ((∃ xs, choleskyForwardBatch cholEx solveK items = .ok xs) ↔ ∀ it ∈ items, IsSPD n it.1) ∧
    (∀ xs, choleskyForwardBatch cholEx solveK items = .ok xs →
      xs.length = items.length ∧
      ∀ k (hk : k < items.length) (hk' : k < xs.length), ∀ i, i < n →
        ∑ j ∈ range n, (items[k]).1 i j * (xs[k]).get j = (items[k]).2 i) := by
  have hany : (items.any (fun it => (cholEx it.1).2 != 0)) = true ↔ ∃ it ∈ items, ¬ IsSPD n it.1 := by
    rw [List.any_eq_true]
    constructor
    · rintro ⟨it, hit, h⟩
      refine ⟨it, hit, fun hspd => ?_⟩
      have := (hK.info_iff it.1 (hs it hit)).mpr hspd
      simp [this] at h
    · rintro ⟨it, hit, h⟩
      refine ⟨it, hit, ?_⟩
      have : (cholEx it.1).2 ≠ 0 := fun h0 => h ((hK.info_iff it.1 (hs it hit)).mp h0)
      simpa using this
  constructor
  · unfold choleskyForwardBatch
    constructor
    · rintro ⟨xs, hxs⟩ it hit
      by_contra hn
      rw [if_pos (hany.mpr ⟨it, hit, hn⟩)] at hxs
      cases hxs
    · intro hall
      have : ¬ (items.any (fun it => (cholEx it.1).2 != 0)) = true := by
        rw [hany]; rintro ⟨it, hit, h⟩; exact h (hall it hit)
      rw [if_neg this]
      exact ⟨_, rfl⟩
  · intro xs hxs
    unfold choleskyForwardBatch at hxs
    by_cases hb : (items.any (fun it => (cholEx it.1).2 != 0)) = true
    · rw [if_pos hb] at hxs; cases hxs
    · rw [if_neg hb, Except.ok.injEq] at hxs
      subst hxs
      refine ⟨by simp, ?_⟩
      intro k hk hk' i hi
      have hmem : items[k] ∈ items := List.getElem_mem hk
      have hspd : IsSPD n (items[k]).1 := by
        by_contra hn
        exact hb (hany.mpr ⟨_, hmem, hn⟩)
      have h0 := (hK.info_iff _ (hs _ hmem)).mpr hspd
      simp only [List.getElem_map]
      exact hK.solves _ _ (hs _ hmem) h0 i hi

/-- item-wise = batched for `Cholesky.forward`: the batch call returns exactly when every item alone returns, and
then position `k` of the result is what the call on item `k` alone returns. -/
theorem choleskyForwardBatch_itemwise (cholEx : (Nat → Nat → ℝ) → (Nat → Nat → ℝ) × Nat)
    (solveK : (Nat → Nat → ℝ) → (Nat → ℝ) → Tab ℝ) (items : List ((Nat → Nat → ℝ) × (Nat → ℝ))) :
    ((∃ xs, choleskyForwardBatch cholEx solveK items = .ok xs) ↔
      ∀ it ∈ items, ∃ x, choleskyForward cholEx solveK it.1 it.2 = .ok x) ∧
    (∀ xs, choleskyForwardBatch cholEx solveK items = .ok xs →
      List.Forall₂ (fun x it => choleskyForward cholEx solveK it.1 it.2 = .ok x) xs items) := by
  have hany : (items.any (fun it => (cholEx it.1).2 != 0)) = true ↔ ∃ it ∈ items, (cholEx it.1).2 ≠ 0 := by
    rw [List.any_eq_true]
    constructor
    · rintro ⟨it, hit, h⟩; exact ⟨it, hit, by simpa using h⟩
    · rintro ⟨it, hit, h⟩; exact ⟨it, hit, by simpa using h⟩
  have hone : ∀ it : (Nat → Nat → ℝ) × (Nat → ℝ), (cholEx it.1).2 = 0 →
      choleskyForward cholEx solveK it.1 it.2 = .ok (solveK (cholEx it.1).1 it.2) := by
    intro it h0
    unfold choleskyForward
    simp [h0]
  constructor
  · constructor
    · rintro ⟨xs, hxs⟩ it hit
      unfold choleskyForwardBatch at hxs
      by_cases hb : (items.any (fun it => (cholEx it.1).2 != 0)) = true
      · rw [if_pos hb] at hxs; cases hxs
      · have h0 : (cholEx it.1).2 = 0 := by
          by_contra hne
          exact hb (hany.mpr ⟨it, hit, hne⟩)
        exact ⟨_, hone it h0⟩
    · intro hall
      unfold choleskyForwardBatch
      have : ¬ (items.any (fun it => (cholEx it.1).2 != 0)) = true := by
        rw [hany]
        rintro ⟨it, hit, hne⟩
        obtain ⟨x, hx⟩ := hall it hit
        exact hne ((choleskyForward_ok_iff cholEx solveK it.1 it.2).mp ⟨x, hx⟩)
      rw [if_neg this]
      exact ⟨_, rfl⟩
  · intro xs hxs
    unfold choleskyForwardBatch at hxs
    by_cases hb : (items.any (fun it => (cholEx it.1).2 != 0)) = true
    · rw [if_pos hb] at hxs; cases hxs
    · rw [if_neg hb, Except.ok.injEq] at hxs
      subst hxs
      have hall : ∀ it ∈ items, (cholEx it.1).2 = 0 := by
        intro it hit
        by_contra hne
        exact hb (hany.mpr ⟨it, hit, hne⟩)
      clear hb hany
      induction items with
      | nil => exact List.Forall₂.nil
      | cons it rest ih =>
        rw [List.map_cons]
        exact List.Forall₂.cons (hone it (hall it (List.mem_cons_self ..)))
          (ih fun it' h' => hall it' (List.mem_cons_of_mem _ h'))

/-- item-wise = batched for `LSTSQ.forward`: the batch call returns exactly when no item's kernel result contains a
NaN, and then position `k` is what the call on item `k` alone returns. -/
theorem lstsqForwardBatch_itemwise (n : Nat) (sols : List (Option (Nat → ℝ))) :
    ((∃ xs, lstsqForwardBatch n sols = .ok xs) ↔ ∀ s ∈ sols, ∃ x, lstsqForward n s = .ok x) ∧
    (∀ xs, lstsqForwardBatch n sols = .ok xs →
      List.Forall₂ (fun x s => lstsqForward n s = .ok x) xs sols) := by
  have hany : (sols.any (fun s => s.isNone)) = true ↔ ∃ s ∈ sols, s = none := by
    rw [List.any_eq_true]
    constructor
    · rintro ⟨s, hs, h⟩; exact ⟨s, hs, by simpa using h⟩
    · rintro ⟨s, hs, h⟩; exact ⟨s, hs, by simp [h]⟩
  constructor
  · constructor
    · rintro ⟨xs, hxs⟩ s hs
      unfold lstsqForwardBatch at hxs
      by_cases hb : (sols.any (fun s => s.isNone)) = true
      · rw [if_pos hb] at hxs; cases hxs
      · cases s with
        | none => exact absurd (hany.mpr ⟨none, hs, rfl⟩) hb
        | some x => exact ⟨_, rfl⟩
    · intro hall
      unfold lstsqForwardBatch
      have : ¬ (sols.any (fun s => s.isNone)) = true := by
        rw [hany]
        rintro ⟨s, hs, rfl⟩
        obtain ⟨x, hx⟩ := hall none hs
        simp [lstsqForward] at hx
      rw [if_neg this]
      exact ⟨_, rfl⟩
  · intro xs hxs
    unfold lstsqForwardBatch at hxs
    by_cases hb : (sols.any (fun s => s.isNone)) = true
    · rw [if_pos hb] at hxs; cases hxs
    · rw [if_neg hb, Except.ok.injEq] at hxs
      subst hxs
      have hall : ∀ s ∈ sols, s ≠ none := fun s hs h => hb (hany.mpr ⟨s, hs, h⟩)
      clear hb hany
      induction sols with
      | nil => exact List.Forall₂.nil
      | cons s rest ih =>
        cases s with
        | none => exact absurd rfl (hall none (List.mem_cons_self ..))
        | some x =>
          simp only [List.filterMap_cons, Option.map_some]
          exact List.Forall₂.cons rfl (ih fun s' h' => hall s' (List.mem_cons_of_mem _ h'))

end PP.LinSolve
