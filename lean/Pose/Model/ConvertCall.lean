import Pose.Model.Convert
/-!
# The calling glue of `pypose/lietensor/convert.py`: shape validation, `from_matrix` dispatch, argument defaulting

Every public converter starts with the same two shape tests (`len(mat.shape) < 2`, trailing shape one of
`(3,3) (3,4) (4,4)`), `from_matrix` then dispatches on `ltype` (anything but the four group ltypes raises), and the
optional arguments default to `check=True, rtol=1e-5, atol=1e-5` (`eps=2e-4` for `euler`).  `none` = "argument
not given by the caller".
-/
namespace PP
variable {α : Type} [Scalar α]

/-- errors of a call: the two argument checks of the glue, or an error of the conversion proper -/
inductive CallErr where
  | badShape
  | badLtype
  | conv (e : ConvErr)
deriving Repr, DecidableEq, Inhabited

def CallErr.name : CallErr → String
  | .badShape => "badShape"
  | .badLtype => "badLtype"
  | .conv e => e.name

/-- `len(mat.shape) < 2` raises; so does a trailing shape other than 3×3, 3×4, 4×4 -/
def layoutOf (rank rows cols : Nat) : Option Layout :=
  if rank < 2 then none
  else if rows == 3 && cols == 3 then some .m33
  else if rows == 3 && cols == 4 then some .m34
  else if rows == 4 && cols == 4 then some .m44
  else none

/-- the optional arguments as the caller passed them (`none` = left out) -/
structure CallArgs (α : Type) where
  check : Option Bool
  rtol : Option α
  atol : Option α

def defCheck : Bool := true
def defRtol : α := q 1 100000
def defAtol : α := q 1 100000
/-- default `eps` of `LieTensor.euler` / `pypose.euler` -/
def defEulerEps : α := q 1 5000

def CallArgs.effCheck (a : CallArgs α) : Bool := a.check.getD defCheck
def CallArgs.effRtol (a : CallArgs α) : α := a.rtol.getD defRtol
def CallArgs.effAtol (a : CallArgs α) : α := a.atol.getD defAtol

/-- which public function is called: `from_matrix(mat, ltype, …)` (`none`: an `ltype` that is not one of the four group
types) or `mat2SO3 / mat2SE3 / mat2Sim3 / mat2RxSO3` directly -/
inductive Entry where
  | fromMatrix (lt : Option GTy)
  | direct (ty : GTy)
deriving Repr, DecidableEq, Inhabited

/-- one call of a converter on a batch whose items have `rows × cols` entries (given row-major as dense matrices) -/
def convCall (detK : Mat3 α → α) (e : Entry) (rank rows cols : Nat) (a : CallArgs α) (Ms : List (DMat α)) :
    Except CallErr (List (List α)) :=
  match layoutOf rank rows cols with
  | none => .error .badShape
  | some lay =>
    let go := fun (ty : GTy) =>
      match fromMatrixBatch ty detK a.effCheck a.effRtol a.effAtol (Ms.map (MatIn.ofDMat lay)) with
      | .ok r => Except.ok r
      | .error e => Except.error (CallErr.conv e)
    match e with
    | .fromMatrix none => .error .badLtype
    | .fromMatrix (some ty) => go ty
    | .direct ty => go ty

/-- `X.euler(eps)` / `pypose.euler(X, eps)` with the default filled in -/
def SO3eulerCall (eps : Option α) (p : Quat α) : Vec3 α := SO3euler (eps.getD defEulerEps) p

end PP
