import Proofs.Lemmas.Batch
import Pose.Gen.Handled
import Pose.Gen.LTypes
import Pose.Gen.Purity
import Pose.Gen.Creations
/-!
# C06 — batching, broadcasting and views are transparent; patching is undone

Property theorems only (helpers are in `Proofs/Lemmas/Batch.lean`). Core Lean, no Mathlib.
The model is `Pose/Model/Batch.lean`; `Pose/Gen/Handled.lean` is regenerated from `/repo` on every run.
-/
namespace PP.Batch

/-! ## row-major indexing -/

/-- `unravel ∘ ravel = id` on every valid multi-index of every shape (any rank, any extents). -/
theorem unravel_ravel (s : Shape) (i : List Nat) (h : inb s i) : unravel s (ravel s i) = i :=
  unravel_ravel' h

/-- `ravel ∘ unravel = id` on every valid flat index of every shape. -/
theorem ravel_unravel (s : Shape) (k : Nat) (h : k < numel s) : ravel s (unravel s k) = k :=
  ravel_unravel' h

/-- valid flat indices are exactly the images of valid multi-indices -/
theorem ravel_bound (s : Shape) (i : List Nat) (h : inb s i) : ravel s i < numel s := ravel_lt h

theorem unravel_valid (s : Shape) (k : Nat) (h : k < numel s) : inb s (unravel s k) := unravel_inb h

/-- flat and multi-indices are in bijection: `ravel` is injective on valid multi-indices -/
theorem ravel_injective (s : Shape) (i j : List Nat) (hi : inb s i) (hj : inb s j) (h : ravel s i = ravel s j) : i = j := by
  rw [← unravel_ravel' hi, ← unravel_ravel' hj, h]

example : unravel [2, 3, 4] (ravel [2, 3, 4] [1, 2, 3]) = [1, 2, 3] ∧ ravel [2, 3, 4] [1, 2, 3] = 23 := by decide

/-! ## broadcasting of binary op sites -/

/-- Broadcasting is symmetric. -/
theorem broadcast_comm (a b : Shape) : broadcastShapes a b = broadcastShapes b a := broadcastShapes_comm a b

/-- The broadcast of two scalar batches only: a scalar result forces both operands to be scalar batches
(this is when the code substitutes `shape = (1,)`). -/
theorem broadcast_nil {a b : Shape} (h : broadcastShapes a b = some []) : a = [] ∧ b = [] := by
  unfold broadcastShapes at h
  simp only at h
  have hl := bzip_length h
  rw [padTo_length (Nat.le_max_left _ _)] at hl
  have ha : a.length = 0 := by have := Nat.le_max_left a.length b.length; simp at hl; omega
  have hb : b.length = 0 := by have := Nat.le_max_right a.length b.length; simp at hl; omega
  exact ⟨List.eq_nil_of_length_eq_zero ha, List.eq_nil_of_length_eq_zero hb⟩

/-- The projections used for pairing address real items of both operands. -/
theorem proj_valid {a b out : Shape} (h : broadcastShapes a b = some out) (i : List Nat) (hi : inb out i) :
    inb a (proj a i) ∧ inb b (proj b i) := ⟨proj_inb_left h hi, proj_inb_right h hi⟩

/-- **Broadcast = item by item.** For every pair of broadcastable lshapes (any rank including none, any
extents including 0), every item-level kernel `f` and every output multi-index `i`:
the op site returns lshape `broadcastShapes …`, and `out[i] = f (x[π₁ i]) (y[π₂ i])` with `π` the torch
broadcasting projections; the last extent is the kernel's `dOut` (the declared fall-back `dDecl` only when
the batch is empty). -/
theorem broadcast_itemwise {α β γ : Type} (f : α → β → γ) (dOut dDecl : Nat) (hd : 0 < dOut)
    (x : T α) (y : T β) (out : Shape) (h : broadcastShapes x.shape y.shape = some out) :
    ∃ r, binop f dOut dDecl x y = some r ∧ r.shape = out ∧
      r.last = (if numel out = 0 then dDecl else dOut) ∧
      ∀ i, inb out i → r.get i = f (x.get (proj x.shape i)) (y.get (proj y.shape i)) := by
  have hn : numel (if out = [] then [1] else out) = numel out := by
    by_cases ho : out = []
    · subst ho; simp [numel]
    · simp [ho]
  unfold binop broadcastInputs
  simp only [h, hn]
  by_cases h0 : numel out = 0
  · -- empty batch: `dim = dDecl`, `view(out_shape + (dDecl,))` of 0 scalars
    simp only [h0, Nat.zero_mul, ne_eq, not_true_eq_false, if_false, viewLast, if_true]
    refine ⟨_, rfl, rfl, rfl, ?_⟩
    intro i hi
    have := numel_pos_of_inb hi
    omega
  · have hne : numel out * dOut ≠ 0 := Nat.mul_ne_zero h0 (by omega)
    simp only [hne, ne_eq, not_false_eq_true, if_true, viewLast, h0, if_false, Nat.mul_mod_right]
    have hdiv : numel out * dOut / numel out = dOut := Nat.mul_div_cancel_left _ (by omega)
    refine ⟨_, rfl, rfl, by simp [hdiv], ?_⟩
    intro i hi
    simp only [Out.get, flatExpand]
    by_cases ho : out = []
    · subst ho
      obtain ⟨ha, hb⟩ := broadcast_nil h
      cases i with
      | nil => simp [ha, hb, proj, projEq, unravel, ravel]
      | cons _ _ => simp [inb] at hi
    · simp only [ho, if_false]
      rw [unravel_ravel' hi]

/-- Corollary in the form the op sites use it (`dDecl = dOut`): the last extent is always the documented one,
including for empty batches (the `dim = … else p.shape[-1]` branch). -/
theorem broadcast_lastdim {α β γ : Type} (f : α → β → γ) (d : Nat) (hd : 0 < d)
    (x : T α) (y : T β) (out : Shape) (h : broadcastShapes x.shape y.shape = some out) :
    ∃ r, binop f d d x y = some r ∧ r.shape = out ∧ r.last = d := by
  obtain ⟨r, h1, h2, h3, _⟩ := broadcast_itemwise f d d hd x y out h
  exact ⟨r, h1, h2, by rw [h3]; split <;> rfl⟩

/-- a shape broadcasts with itself to itself (the same-shape call is the un-broadcast op) -/
theorem broadcast_self (s : Shape) : broadcastShapes s s = some s := by
  unfold broadcastShapes; simp [padTo_self, bzip_self]

/-- same-shape operands: the pairing is the identity, `out[i] = f x[i] y[i]` -/
theorem broadcast_same_shape {α β γ : Type} (f : α → β → γ) (d : Nat) (hd : 0 < d) (x : T α) (y : T β)
    (h : x.shape = y.shape) :
    ∃ r, binop f d d x y = some r ∧ r.shape = x.shape ∧ ∀ i, inb x.shape i → r.get i = f (x.get i) (y.get i) := by
  have hb : broadcastShapes x.shape y.shape = some x.shape := by rw [← h]; exact broadcast_self _
  obtain ⟨r, h1, h2, _, h4⟩ := broadcast_itemwise f d d hd x y x.shape hb
  refine ⟨r, h1, h2, ?_⟩
  intro i hi
  rw [h4 i hi, proj_self hi, ← h, proj_self hi]

/-- Non-broadcastable lshapes: the op site raises (and never returns a value). -/
theorem broadcast_raises {α β γ : Type} (f : α → β → γ) (dOut dDecl : Nat) (x : T α) (y : T β)
    (h : broadcastShapes x.shape y.shape = none) : binop f dOut dDecl x y = none := by
  unfold binop broadcastInputs; simp [h]

/-- What `broadcastShapes` is, dimension by dimension (the torch rule, aligned at the trailing end):
the result has the larger rank and, on each aligned dimension, both extents are equal to the result or 1. -/
theorem broadcast_spec {a b out : Shape} (h : broadcastShapes a b = some out) :
    out.length = max a.length b.length ∧
    ∀ k, k < out.length →
      ((padTo out.length a).getD k 0 = out.getD k 0 ∨ (padTo out.length a).getD k 0 = 1) ∧
      ((padTo out.length b).getD k 0 = out.getD k 0 ∨ (padTo out.length b).getD k 0 = 1) ∧
      (out.getD k 0 = (padTo out.length a).getD k 0 ∨ out.getD k 0 = (padTo out.length b).getD k 0) := by
  unfold broadcastShapes at h
  simp only at h
  have hl := (bzip_length h).1
  rw [padTo_length (Nat.le_max_left _ _)] at hl
  refine ⟨hl, ?_⟩
  rw [hl]
  intro k hk
  exact bzip_spec h k (by omega)

example : broadcastShapes [2, 1, 3] [4, 1] = some [2, 4, 3] ∧ broadcastShapes [] [] = some [] ∧
    broadcastShapes [0, 3] [3] = some [0, 3] ∧ broadcastShapes [2] [3] = none ∧
    broadcastShapes [1] [0] = some [0] ∧ proj [4, 1] [1, 3, 2] = [3, 0] := by decide

/-- **The torch rule characterises the result** (converse of `broadcast_spec`): an lshape of the larger rank that agrees,
dimension by dimension (aligned at the trailing end), with each operand or meets a 1 there IS the broadcast. -/
theorem broadcast_iff (a b out : Shape) :
    broadcastShapes a b = some out ↔
      out.length = max a.length b.length ∧ ∀ k, k < out.length →
        ((padTo out.length a).getD k 0 = out.getD k 0 ∨ (padTo out.length a).getD k 0 = 1) ∧
        ((padTo out.length b).getD k 0 = out.getD k 0 ∨ (padTo out.length b).getD k 0 = 1) ∧
        (out.getD k 0 = (padTo out.length a).getD k 0 ∨ out.getD k 0 = (padTo out.length b).getD k 0) := by
  constructor
  · exact broadcast_spec
  · rintro ⟨hl, h⟩
    unfold broadcastShapes
    simp only
    rw [← hl]
    exact bzip_of_spec _ _ out (by rw [padTo_length]; rw [hl]; exact Nat.le_max_left _ _)
      (by rw [padTo_length]; rw [hl]; exact Nat.le_max_right _ _) h

/-- the broadcast result is unique and not broadcastable means: no lshape satisfies the rule -/
theorem broadcast_none_iff (a b : Shape) : broadcastShapes a b = none ↔ ¬ ∃ out, broadcastShapes a b = some out := by
  cases broadcastShapes a b <;> simp

/-- **`broadcastShapes` is what torch computes**: the loop of `torch._refs._broadcast_shapes` (initialise with ones, merge
every shape from the trailing end, positions a shape lacks stay) returns the same lshape — or raises — for every pair
of shapes of every rank, extents 0 and 1 included. -/
theorem broadcastShapes_eq_torch (a b : Shape) : broadcastShapes a b = torchBroadcast a b := by
  rw [broadcastShapes_eq_bcastRev _ a b rfl]
  unfold torchBroadcast
  simp only
  rw [mergeRev_ones _ _ (by simp; exact Nat.le_max_left _ _)]
  simp only [List.length_reverse]
  have := mergeRev_pad a.reverse b.reverse
  simp only [List.length_reverse] at this
  rw [this]

/-- the item dimension rides along: broadcasting the full shapes `lshape ++ [d]` is broadcasting the lshapes -/
theorem broadcast_append_last (a b : Shape) (d : Nat) :
    broadcastShapes (a ++ [d]) (b ++ [d]) = (broadcastShapes a b).map (· ++ [d]) := by
  rw [broadcastShapes_eq_bcastRev _ _ _ rfl, broadcastShapes_eq_bcastRev _ a b rfl]
  simp only [List.reverse_append, List.reverse_cons, List.reverse_nil, List.nil_append, List.singleton_append, bcastRev]
  have : bdim d d = some d := by simp [bdim]
  rw [this]
  cases bcastRev a.reverse b.reverse <;> simp

example : torchBroadcast [2, 1, 3] [4, 1] = some [2, 4, 3] ∧ torchBroadcast [0, 3] [3] = some [0, 3] ∧
    torchBroadcast [2] [3] = none ∧ torchBroadcast [] [1, 0] = some [1, 0] := by decide


/-! ## unary ops -/

/-- Unary ops act item by item and keep the lshape — for every shape. -/
theorem unop_itemwise {α γ : Type} (f : α → γ) (d : Nat) (x : T α) (i : List Nat) :
    (unop f d x).shape = x.shape ∧ (unop f d x).last = d ∧ (unop f d x).get i = f (x.get i) := by
  simp [unop, Out.get, T.get]

/-- The `broadcast_inputs(x, None)` route (flatten, kernel, view back) is the same item-wise map, for every
shape including empty ones. -/
theorem unopFlat_itemwise {α γ : Type} (f : α → γ) (d : Nat) (hd : 0 < d) (x : T α) :
    unopFlat f d d x = some (unop f d x) := by
  unfold unopFlat broadcastInput1 unop
  simp only
  by_cases h0 : numel x.shape = 0
  · simp [h0, viewLast]
  · have hne : numel x.shape * d ≠ 0 := Nat.mul_ne_zero h0 (by omega)
    simp only [hne, ne_eq, not_false_eq_true, if_true, viewLast, h0, if_false, Nat.mul_mod_right]
    rw [Nat.mul_div_cancel_left _ (by omega)]

/-! ## locality: no batch-level decisions -/

/-- **An output item depends only on the two items it is paired with** (no batch-level decision): changing any
other item of either operand — same shapes — leaves `out[i]` unchanged. This is the clause a batch-level
`.any()/.all()` switch violates. -/
theorem binop_local {α β γ : Type} (f : α → β → γ) (d : Nat) (hd : 0 < d) (x x' : T α) (y y' : T β) (out : Shape)
    (hx : x'.shape = x.shape) (hy : y'.shape = y.shape) (h : broadcastShapes x.shape y.shape = some out)
    (i : List Nat) (hi : inb out i)
    (hxi : x'.get (proj x.shape i) = x.get (proj x.shape i)) (hyi : y'.get (proj y.shape i) = y.get (proj y.shape i)) :
    ∃ r r', binop f d d x y = some r ∧ binop f d d x' y' = some r' ∧ r'.shape = r.shape ∧ r'.get i = r.get i := by
  obtain ⟨r, h1, h2, _, h4⟩ := broadcast_itemwise f d d hd x y out h
  have h' : broadcastShapes x'.shape y'.shape = some out := by rw [hx, hy]; exact h
  obtain ⟨r', h1', h2', _, h4'⟩ := broadcast_itemwise f d d hd x' y' out h'
  refine ⟨r, r', h1, h1', by rw [h2, h2'], ?_⟩
  rw [h4 i hi, h4' i hi, hx, hy, hxi, hyi]

/-- the unary version: `out[i]` depends on `x[i]` only -/
theorem unop_local {α γ : Type} (f : α → γ) (d : Nat) (x x' : T α) (_hs : x'.shape = x.shape) (i : List Nat)
    (hxi : x'.get i = x.get i) : (unop f d x').get i = (unop f d x).get i := by
  rw [(unop_itemwise f d x' i).2.2, (unop_itemwise f d x i).2.2, hxi]

/-- batched = the op on the single item: a one-item (scalar-batch) call on `x[π₁ i]`, `y[π₂ i]` returns `out[i]` -/
theorem binop_single {α β γ : Type} (f : α → β → γ) (d : Nat) (hd : 0 < d) (x : T α) (y : T β) (out : Shape)
    (h : broadcastShapes x.shape y.shape = some out) (i : List Nat) (hi : inb out i) :
    ∃ r r1, binop f d d x y = some r ∧
      binop f d d ⟨[], fun _ => x.get (proj x.shape i)⟩ ⟨[], fun _ => y.get (proj y.shape i)⟩ = some r1 ∧
      r1.shape = [] ∧ r1.get [] = r.get i := by
  obtain ⟨r, h1, _, _, h4⟩ := broadcast_itemwise f d d hd x y out h
  obtain ⟨r1, g1, g2, _, g4⟩ := broadcast_itemwise f d d hd (⟨[], fun _ => x.get (proj x.shape i)⟩ : T α)
    (⟨[], fun _ => y.get (proj y.shape i)⟩ : T β) [] (show broadcastShapes [] [] = some [] by decide)
  refine ⟨r, r1, h1, g1, g2, ?_⟩
  rw [g4 [] (by simp [inb]), h4 i hi]
  simp [T.get]

/-! ## `LieTensor.add` (the D14 repair: expand, clone, in-place retraction) -/

/-- `X.add(a)` / `X + a` for a group type equals the retraction applied item by item under broadcasting of
the two lshapes, and returns the broadcast lshape — for every broadcastable pair. -/
theorem add_itemwise {α β : Type} (retr : β → α → α) (d : Nat) (hd : 0 < d) (x : T α) (a : T β) (out : Shape)
    (h : broadcastShapes x.shape a.shape = some out) :
    ∃ r, addOp retr d x a = some r ∧ r.shape = out ∧ r.last = d ∧
      ∀ i, inb out i → r.get i = retr (a.get (proj a.shape i)) (x.get (proj x.shape i)) := by
  have h2 : broadcastShapes a.shape (expandClone x out).shape = some out := broadcastShapes_absorb h
  obtain ⟨r, hr, hs, hl, hv⟩ := broadcast_itemwise retr d d hd a (expandClone x out) out h2
  have hl' : r.last = d := by rw [hl]; split <;> rfl
  refine ⟨r, ?_, hs, hl', ?_⟩
  · unfold addOp
    simp only [h, hr, hs, hl', and_self, if_true]
  · intro i hi
    rw [hv i hi]
    congr 1
    show (expandClone x out).data (ravel out (proj out i)) = _
    rw [proj_self hi]
    simp only [expandClone, flatExpand]
    rw [unravel_ravel' hi]

theorem add_raises {α β : Type} (retr : β → α → α) (d : Nat) (x : T α) (a : T β)
    (h : broadcastShapes x.shape a.shape = none) : addOp retr d x a = none := by
  unfold addOp; simp [h]

/-! ## `__torch_function__`: ltype propagation -/

/-- A handled function returning something: every plain tensor of the result tree becomes a LieTensor with
the ltype of the first LieTensor among the (flattened positional and keyword) arguments; LieTensors already in the result (in-place
functions returning `self`) and non-tensors are left alone. -/
theorem wrap_ltype (handled : List String) (name : String) (args res : List Leaf) (lt : Nat)
    (hn : name ∈ handled) (hres : res ≠ []) (hl : firstLtype args = some lt) :
    ∃ out, torchFunction handled name args res = some out ∧ out.length = res.length ∧
      ∀ k (hk : k < res.length) (hk' : k < out.length),
        (res[k] = Leaf.tensor → out[k] = Leaf.lie lt) ∧ (res[k] ≠ Leaf.tensor → out[k] = res[k]) := by
  refine ⟨res.map (wrapLeaf lt), ?_, by simp, ?_⟩
  · unfold torchFunction; simp [hn, hres, hl]
  · intro k hk hk'
    simp only [List.getElem_map]
    constructor
    · intro h; rw [h]; rfl
    · intro h
      cases hc : res[k] with
      | tensor => exact absurd hc h
      | lie t => rfl
      | other => rfl

/-- No tensor of a handled function's result is left without an ltype. -/
theorem wrap_total (handled : List String) (name : String) (args res out : List Leaf)
    (hn : name ∈ handled) (hres : res ≠ []) (h : torchFunction handled name args res = some out) :
    Leaf.tensor ∉ out := by
  unfold torchFunction at h
  simp only [hres, hn, ne_eq, not_false_eq_true, and_self, if_true] at h
  cases hl : firstLtype args with
  | none => simp [hl] at h
  | some lt =>
    simp only [hl, Option.some.injEq] at h
    subst h
    intro hm
    obtain ⟨l, _, hl'⟩ := List.mem_map.mp hm
    cases l <;> simp [wrapLeaf] at hl'

/-- A function that is not in the list returns what torch returned (plain tensors). -/
theorem unhandled_plain (handled : List String) (name : String) (args res : List Leaf)
    (hn : name ∉ handled) : torchFunction handled name args res = some res := by
  unfold torchFunction; simp [hn]

/-- The error branch of the code: with no LieTensor at all among the flattened positional and keyword
arguments the `[...][0]` raises IndexError.  (Before the D22 repair only positional arguments were flattened and
this branch was reached by every keyword-only call.)  Conversely a LieTensor anywhere in `args` excludes it. -/
theorem handled_no_lietensor_raises (handled : List String) (name : String) (args res : List Leaf)
    (hn : name ∈ handled) (hres : res ≠ []) (hl : firstLtype args = none) :
    torchFunction handled name args res = none := by
  unfold torchFunction; simp [hn, hres, hl]

/-- `firstLtype` finds a LieTensor wherever it sits in the flattened arguments (positional or keyword). -/
theorem firstLtype_isSome (args : List Leaf) (t : Nat) (h : Leaf.lie t ∈ args) : (firstLtype args).isSome = true := by
  induction args with
  | nil => simp at h
  | cons a rest ih =>
    cases a with
    | lie u => simp [firstLtype]
    | tensor =>
      simp only [firstLtype]
      exact ih (by simpa using h)
    | other =>
      simp only [firstLtype]
      exact ih (by simpa using h)

example : torchFunction ["cat"] "cat" [.other, .tensor, .lie 2, .lie 5] [.tensor, .other] = some [.lie 2, .other] := by
  decide

/-! ## the handled-function list (regenerated from the source) -/

/-- Every entry of the library's `HANDLED_FUNCTIONS` — the list as it is in `/repo` right now — has a semantics
in the model's table.  A finite table, so `decide` is a proof, not a sample. -/
theorem handled_classified : ∀ n ∈ PP.Gen.handled, (semOf n).isSome = true := by decide

/-- Every shape-only function the property text names is in the library's list. -/
theorem handled_required : ∀ n ∈ required, n ∈ PP.Gen.handled := by decide

/-- The only listed function whose result is not a selection of input items is `scatter_add`; the only ones
addressed by scalar positions are `take` and `masked_select`. -/
theorem handled_nonselection : ∀ n ∈ PP.Gen.handled,
    (semOf n = some Sem.accumulate → n = "scatter_add") ∧
    (semOf n = some Sem.element → n = "take" ∨ n = "masked_select") := by decide

/-! ## shape-only functions are gathers of items -/

/-- **One step is a gather.** If torch accepts the step (`apply = some`), the result holds, at every valid
output multi-index `i`, exactly the input item at the valid input multi-index `g i`. -/
theorem step_gather {α : Type} (x : T α) (st : Step) (s' : Shape) (g : List Nat → List Nat)
    (h : st.apply x.shape = some (s', g)) :
    ∃ m, (IMap.id x.shape).step st = some m ∧ m.out = s' ∧
      ∀ i, inb s' i → inb x.shape (g i) ∧ (m.gather x).get i = x.get (g i) := by
  refine ⟨⟨s', fun k => ravel x.shape (g (unravel s' k))⟩, ?_, rfl, ?_⟩
  · simp [IMap.step, IMap.id, h]
  · intro i hi
    refine ⟨step_inb h hi, ?_⟩
    simp only [IMap.gather, T.get]
    rw [unravel_ravel' hi]

/-- **Pipelines of steps are gathers**: every output item of any accepted pipeline (any length) is an input
item with an in-range flat index. -/
theorem steps_valid (n0 : Nat) : ∀ (sts : List Step) (m m' : IMap), m.Valid n0 → m.steps sts = some m' → m'.Valid n0
  | [], m, m', hv, h => by simp [IMap.steps] at h; subst h; exact hv
  | st :: rest, m, m', hv, h => by
    simp only [IMap.steps] at h
    cases hs : m.step st with
    | none => simp [hs] at h
    | some m1 =>
      simp only [hs] at h
      apply steps_valid n0 rest m1 m' _ h
      unfold IMap.step at hs
      cases ha : st.apply m.out with
      | none => simp [ha] at hs
      | some sg =>
        obtain ⟨s', g⟩ := sg
        simp only [ha, Option.some.injEq] at hs
        subst hs
        intro k hk
        apply hv
        exact ravel_lt (step_inb ha (unravel_inb hk))

theorem pipeline_gather (s : Shape) (sts : List Step) (m : IMap) (h : (IMap.id s).steps sts = some m) :
    m.Valid (numel s) :=
  steps_valid (numel s) sts (IMap.id s) m (fun _ hk => hk) h

/-- **Pipelines have multi-index semantics.** For every accepted pipeline there is a map `G` on multi-indices
(the composition of the steps' maps) such that every valid output index reads the valid input index `G i`. -/
theorem pipeline_multi {α : Type} (x : T α) : ∀ (sts : List Step) (m : IMap) (G : List Nat → List Nat),
    (∀ i, inb m.out i → inb x.shape (G i) ∧ m.src (ravel m.out i) = ravel x.shape (G i)) →
    ∀ m', m.steps sts = some m' →
      ∃ G' : List Nat → List Nat, ∀ i, inb m'.out i → inb x.shape (G' i) ∧ (m'.gather x).get i = x.get (G' i)
  | [], m, G, hG, m', h => by
    simp [IMap.steps] at h; subst h
    refine ⟨G, fun i hi => ⟨(hG i hi).1, ?_⟩⟩
    simp only [IMap.gather, T.get]
    rw [(hG i hi).2]
  | st :: rest, m, G, hG, m', h => by
    simp only [IMap.steps] at h
    cases hs : m.step st with
    | none => simp [hs] at h
    | some m1 =>
      simp only [hs] at h
      unfold IMap.step at hs
      cases ha : st.apply m.out with
      | none => simp [ha] at hs
      | some sg =>
        obtain ⟨s', g⟩ := sg
        simp only [ha, Option.some.injEq] at hs
        subst hs
        apply pipeline_multi x rest _ (fun i => G (g i)) _ m' h
        intro i hi
        have hgi := step_inb ha hi
        refine ⟨(hG _ hgi).1, ?_⟩
        simp only
        rw [unravel_ravel' hi]
        exact (hG _ hgi).2

/-- the corollary from the identity map: `X.f₁(…).f₂(…)…` holds at `i` the input item at `G i` -/
theorem pipeline_items {α : Type} (x : T α) (sts : List Step) (m : IMap) (h : (IMap.id x.shape).steps sts = some m) :
    ∃ G : List Nat → List Nat, ∀ i, inb m.out i → inb x.shape (G i) ∧ (m.gather x).get i = x.get (G i) :=
  pipeline_multi x sts (IMap.id x.shape) (fun i => i) (fun _ hi => ⟨hi, rfl⟩) m h

/-- `reshape`-family functions keep the row-major order of the items (flat identity). -/
theorem reshape_flat (s s' : Shape) (hn : numel s' = numel s) :
    ∃ m, (IMap.id s).step (.reshape s') = some m ∧ m.out = s' ∧ ∀ k, k < numel s' → m.src k = k := by
  refine ⟨_, by simp [IMap.step, IMap.id, Step.apply, hn]; rfl, rfl, ?_⟩
  intro k hk
  simp only
  rw [ravel_unravel' hk, ravel_unravel' (by omega)]

/-- `cat`-family: every output item is an item of one of the inputs, at a valid index of that input. -/
theorem cat_gather (ss : List Shape) (dim : Nat) (out : Shape) (g : List Nat → Nat × List Nat)
    (h : catMap ss dim = some (out, g)) (i : List Nat) (hi : inb out i) :
    (g i).1 < ss.length ∧ inb (ss.getD (g i).1 []) (g i).2 := cat_valid h hi

/-- where a concatenation position comes from: block `t` at offset `r` with `j = Σ_{u<t} L_u + r` -/
theorem cat_offsets (ls : List Nat) (j : Nat) (h : j < ls.sum) :
    (locate ls j).1 < ls.length ∧ (locate ls j).2 < ls.getD (locate ls j).1 0 ∧
    j = (ls.take (locate ls j).1).sum + (locate ls j).2 := locate_spec ls j h

/-- `index_copy` / `select_scatter` / `index_put` / `__setitem__`-family: every output item is the item of
`self` at the same index (position not addressed) or the item of `src` whose index entry addresses it. -/
theorem overwrite_gather (s : Shape) (dim : Nat) (idx : List Nat) (out : Shape) (g : List Nat → Nat × List Nat)
    (h : overwriteMap s dim idx = some (out, g)) (i : List Nat) (hi : inb out i) :
    out = s ∧ (((g i).1 = 0 ∧ (g i).2 = i ∧ ¬ i.getD dim 0 ∈ idx) ∨
      ((g i).1 = 1 ∧ inb (s.set dim idx.length) (g i).2 ∧ idx.getD ((g i).2.getD dim 0) 0 = i.getD dim 0 ∧
        ∀ k, k ≠ dim → (g i).2.getD k 0 = i.getD k 0)) := overwrite_valid h hi

/-- `gather` / `take_along_dim` with an item-constant index: output item `i` is the input item with the
coordinate along `dim` replaced by `index[i]`. -/
theorem gather_gather (s si : Shape) (dim : Nat) (index : Nat → Nat) (out : Shape) (g : List Nat → List Nat)
    (h : gatherMap s si dim index = some (out, g)) (i : List Nat) (hi : inb out i) :
    out = si ∧ inb s (g i) ∧ (g i).getD dim 0 = index (ravel si i) ∧ ∀ k, k ≠ dim → (g i).getD k 0 = i.getD k 0 :=
  gather_valid h hi

/-- `scatter` with an item-constant index: every output item is `self`'s item at the same index or an item
of `src` whose index entry addresses it. -/
theorem scatter_gather (s si ssrc : Shape) (dim : Nat) (index : Nat → Nat) (hd : dim < s.length)
    (hsi : si.length = s.length) (hsrc : ssrc.length = s.length)
    (hle : ∀ k, k < s.length → si.getD k 0 ≤ ssrc.getD k 0) (i : List Nat) (hi : inb s i) :
    ((scatterMap s si dim index i).1 = 0 ∧ (scatterMap s si dim index i).2 = i) ∨
    ((scatterMap s si dim index i).1 = 1 ∧ inb ssrc (scatterMap s si dim index i).2 ∧
      inb si (scatterMap s si dim index i).2 ∧
      index (ravel si (scatterMap s si dim index i).2) = i.getD dim 0 ∧
      ∀ k, k ≠ dim → (scatterMap s si dim index i).2.getD k 0 = i.getD k 0) :=
  scatter_valid hd hsi hsrc hle hi

example : ((IMap.id [2, 3]).steps [.permute [1, 0], .index 0 [2, 0], .reshape [4]]).map
    (fun m => (m.out, (List.range 4).map m.src)) = some ([4], [2, 5, 0, 3]) := by decide
example : (catFlat [[2, 1], [2, 2]] 1).map (fun r => (r.1, (List.range 6).map r.2)) =
    some ([2, 3], [(0, 0), (1, 0), (1, 1), (0, 1), (1, 2), (1, 3)]) := by decide

/-! non-vacuity of the hypotheses above: every kind of step / map is accepted on concrete non-trivial shapes -/
example : ((Step.reshape [3, 2]).apply [2, 3]).map (·.1) = some [3, 2] ∧
    ((Step.permute [2, 0, 1]).apply [2, 3, 4]).map (·.1) = some [4, 2, 3] ∧
    ((Step.index 1 [2, 2, 0]).apply [2, 3]).map (·.1) = some [2, 3] ∧
    ((Step.expand [4, 2, 3]).apply [2, 1]).map (·.1) = some [4, 2, 3] ∧
    ((Step.repeat_ [2, 1, 2]).apply [2, 3]).map (·.1) = some [2, 2, 6] ∧
    ((Step.expand [2, 2]).apply [2, 3]).map (·.1) = none ∧ ((Step.index 0 [2]).apply [2, 3]).map (·.1) = none := by decide
example : (overwriteFlat [2, 3] 1 [2, 0]).map (fun r => (r.1, (List.range 6).map r.2)) =
    some ([2, 3], [(1, 1), (0, 1), (1, 0), (1, 3), (0, 4), (1, 2)]) := by decide
example : (gatherFlat [2, 3] [1, 3] 0 (fun k => [1, 0, 1].getD k 0)).map (fun r => (r.1, (List.range 3).map r.2)) =
    some ([1, 3], [3, 1, 5]) := by decide
example : (List.range 6).map (scatterFlat [2, 3] [1, 3] [1, 3] 0 (fun k => [1, 0, 1].getD k 0)) =
    [(0, 0), (1, 1), (0, 2), (1, 0), (0, 4), (1, 2)] := by decide
example : (binop (fun a b => (a, b)) 3 3 ⟨[2, 1], fun k => k⟩ ⟨[3], fun k => k⟩).map
    (fun r => (r.shape, r.last, (List.range 6).map r.data)) =
    some ([2, 3], 3, [(0, 0), (0, 1), (0, 2), (1, 0), (1, 1), (1, 2)]) := by decide
example : (binop (fun (a b : Nat) => (a, b)) 3 3 ⟨[0, 1], fun k => k⟩ ⟨[3], fun k => k⟩).map (fun r => (r.shape, r.last)) =
    some ([0, 3], 3) ∧
    (binop (fun (a b : Nat) => (a, b)) 3 3 ⟨[], fun k => k⟩ ⟨[], fun k => k⟩).map (fun r => (r.shape, r.last, r.data 0)) =
    some ([], 3, (0, 0)) := by decide

/-! ## ltypes, op signatures, memory effects, syntactic purity (pass 3) -/

/-- the generated LieType table of `/repo` is the documented one (names, dimension, embedding, manifold; all eight) -/
theorem ltypes_table : PP.Gen.ltypes.length = 8 ∧ ∀ t ∈ LT.all, (t.className, t.dims.1, t.dims.2.1, t.dims.2.2) ∈ PP.Gen.ltypes := by
  decide

/-- structure of the table: an algebra has dimension = manifold, its group one more; both share embedding and manifold -/
theorem ltypes_structure : ∀ t ∈ LT.all,
    t.algebra.onManifold = true ∧ t.group.onManifold = false ∧ t.group.dim = t.algebra.dim + 1 ∧
    t.group.dims.2.1 = t.group.dim ∧ t.algebra.dims.2.1 = t.group.dim ∧ t.algebra.manifold = t.group.manifold ∧
    t.algebra.dim = t.algebra.manifold := by decide

/-- Exp and Log are defined exactly on algebras / groups and are mutually inverse on ltypes -/
theorem sig_exp_log : ∀ t ∈ LT.all,
    ((sig .Exp t).isSome = t.onManifold) ∧ ((sig .Log t).isSome = !t.onManifold) ∧
    (t.onManifold = true → sig .Exp t = some (.lie t.group) ∧ sig .Log t.group = some (.lie t)) ∧
    (t.onManifold = false → sig .Log t = some (.lie t.algebra) ∧ sig .Exp t.algebra = some (.lie t)) := by decide

/-- every LieTensor an op returns passes the constructor's shape assertion, for every lshape: the `LieTensor(out, ltype=…)`
wrapping inside the ops never trips `__init__`'s check -/
theorem sig_init_ok (op : Op) (t r : LT) (ls : Shape) (_h : sig op t = some (.lie r)) : initOk r ((Res.lie r).shape ls) = true := by
  simp [initOk, Res.shape]

/-- the item width the binary op sites pass to `view` (`dOut`) is the dimension of the ltype they wrap the result in -/
theorem sig_binop_dout : ∀ t ∈ LT.all, t.onManifold = false →
    sig .Mul t = some (.lie t) ∧ sig .Retr t = some (.lie t) ∧ sig .add t = some (.lie t) ∧
    sig .Adj t = some (.lie t.algebra) ∧ sig .AdjT t = some (.lie t.algebra) ∧ sig .Jinvp t = some (.lie t.algebra) ∧
    t.algebra.dim = t.manifold := by decide

/-- group-only ops raise on algebras; `Jr` exists for SO3 / so3 only -/
theorem sig_errors : ∀ t ∈ LT.all,
    (t.onManifold = true → sig .Mul t = some (.lie t) ∧ sig .Act3 t = none ∧ sig .Act4 t = none ∧ sig .Retr t = none ∧ sig .Adj t = none ∧
      sig .AdjT t = none ∧ sig .Jinvp t = none ∧ sig .Log t = none) ∧
    ((sig .Jr t).isSome = decide (t.group = LT.SO3)) := by decide

/-- a batched binary op site returns, for every broadcastable lshape pair, exactly the shape of the signature table:
broadcast lshape followed by the result ltype's dimension — and that shape passes `LieTensor.__init__` -/
theorem op_result_shape {α β γ : Type} (f : α → β → γ) (op : Op) (t r : LT) (hs : sig op t = some (.lie r)) (x : T α) (y : T β)
    (out : Shape) (h : broadcastShapes x.shape y.shape = some out) :
    ∃ res, binop f r.dim r.dim x y = some res ∧ res.shape ++ [res.last] = (Res.lie r).shape out ∧
      initOk r (res.shape ++ [res.last]) = true := by
  have hd : 0 < r.dim := by cases r <;> decide
  obtain ⟨res, h1, h2, h3⟩ := broadcast_lastdim f r.dim hd x y out h
  refine ⟨res, h1, by simp [Res.shape, h2, h3], by simp [initOk, h3]⟩

/-! memory effects -/

/-- every handled function of the regenerated list has a memory effect in the model -/
theorem handled_effects_defined : ∀ n ∈ PP.Gen.handled, ((semOf n).map effectOf).isSome = true := by decide

/-- **the in-place functions of the list are exactly those the naming convention marks** (trailing underscore /
`__setitem__`) — over the list as it is in `/repo` now -/
theorem handled_inplace_iff_name : ∀ n ∈ PP.Gen.handled,
    ((semOf n).map effectOf = some Effect.inplace) = (inplaceName n = true) := by decide

/-- an effect other than `inplace` leaves every existing slot as it was (and never frees one) -/
theorem effect_pure {α : Type} (e : Effect) (he : e ≠ .inplace) (st : Store α) (self : Nat) (val : α) :
    (∀ s, s < st.next → (applyEffect e st self val).1.mem s = st.mem s) ∧ st.next ≤ (applyEffect e st self val).1.next := by
  cases e with
  | fresh =>
    refine ⟨fun s hs => ?_, by simp [applyEffect]⟩
    simp only [applyEffect]
    have : s ≠ st.next := by omega
    simp [this]
  | view => exact ⟨fun _ _ => rfl, Nat.le_refl _⟩
  | inplace => exact absurd rfl he

/-- **Non-mutation of the handled functions in the model**: every function of the regenerated list whose name carries no
trailing underscore leaves every operand slot untouched — all existing memory is bit for bit what it was. -/
theorem handled_nonunderscore_pure {α : Type} (n : String) (hn : n ∈ PP.Gen.handled) (hu : inplaceName n = false)
    (st : Store α) (self : Nat) (val : α) :
    ∃ r, applyHandled n st self val = some r ∧ ∀ s, s < st.next → r.1.mem s = st.mem s := by
  have hdef := handled_effects_defined n hn
  have hiff := handled_inplace_iff_name n hn
  unfold applyHandled
  cases hs : semOf n with
  | none => simp [hs] at hdef
  | some sem =>
    simp only [Option.map_some]
    refine ⟨_, rfl, ?_⟩
    have hne : effectOf sem ≠ .inplace := by
      intro he
      rw [hs] at hiff
      simp only [Option.map_some, he, hu] at hiff
      simp at hiff
    exact (effect_pure (effectOf sem) hne st self val).1

/-- **Purity over histories**: any sequence of handled functions of the regenerated list, none of which carries a trailing
underscore, leaves every slot that existed at the start bit for bit unchanged — however long the sequence and whatever
operands (including results of earlier calls) it uses. -/
theorem handled_history_pure {α : Type} : ∀ (calls : List (String × Nat × α)) (st : Store α),
    (∀ c ∈ calls, c.1 ∈ PP.Gen.handled ∧ inplaceName c.1 = false) →
    ∃ st', runHandled st calls = some st' ∧ st.next ≤ st'.next ∧ ∀ s, s < st.next → st'.mem s = st.mem s
  | [], st, _ => ⟨st, rfl, Nat.le_refl _, fun _ _ => rfl⟩
  | (n, self, v) :: rest, st, h => by
    have hc := h (n, self, v) List.mem_cons_self
    obtain ⟨r, hr, hpure⟩ := handled_nonunderscore_pure n hc.1 hc.2 st self v
    have hnext : st.next ≤ r.1.next := by
      unfold applyHandled at hr
      cases hs : semOf n with
      | none => simp [hs] at hr
      | some sem =>
        simp only [hs, Option.map_some, Option.some.injEq] at hr
        subst hr
        cases effectOf sem <;> simp [applyEffect]
    obtain ⟨st', h1, h2, h3⟩ := handled_history_pure rest r.1 (fun c hcm => h c (List.mem_cons_of_mem _ hcm))
    refine ⟨st', by simp [runHandled, hr, h1], Nat.le_trans hnext h2, ?_⟩
    intro s hs
    rw [h3 s (by omega), hpure s hs]

example : ((runHandled (⟨fun s => 10 * s, 2⟩ : Store Nat) [("cat", 0, 7), ("permute", 2, 8), ("index_copy", 1, 9)]).map
    fun st => ((List.range 4).map st.mem, st.next)) = some ([0, 10, 7, 9], 4) := by decide

/-- an in-place function writes its first operand's slot only -/
theorem effect_inplace_local {α : Type} (st : Store α) (self : Nat) (val : α) :
    (applyEffect .inplace st self val).2 = self ∧ (applyEffect .inplace st self val).1.mem self = val ∧
    ∀ s, s ≠ self → (applyEffect .inplace st self val).1.mem s = st.mem s := by
  refine ⟨rfl, by simp [applyEffect], fun s hs => by simp [applyEffect, hs]⟩

/-! syntactic purity of the source -/

/-- **No public function of the anchored files without a trailing underscore writes in place through anything that may
alias one of its arguments** — a finite table regenerated from `/repo`'s source on every run (python `ast`; the alias rules
are those of `harness/extract.py`), so `decide` is a proof about exactly this source text. -/
theorem source_purity : ∀ f ∈ PP.Gen.functions, f.2.2.1 = true → f.2.2.2.1 = false → f.2.2.2.2 = [] := by decide +kernel

/-- **Every constant the anchored code creates gets its dtype from an operand, from the caller's keywords, or is an integer
index** — or is one of the nine reviewed conversions of python data (`reviewedCreations`).  Regenerated from the source
on every run: a new `torch.eye(3, device=…)` without `dtype=` (seed C06-4: float32 operand + float64 default ⇒ float64
result) no longer builds. -/
theorem creations_dtype_explicit : ∀ c ∈ PP.Gen.creations, creationOk c = true := by decide +kernel

/-- the reviewed list carries no dead entries: each one occurs in the source -/
theorem creations_reviewed_live : ∀ r ∈ reviewedCreations, ∃ c ∈ PP.Gen.creations, (c.1, c.2.1, c.2.2.1) = r := by decide +kernel

example : creationOk ("lietensor/lietensor.py", "so3Type.Jr", "torch.eye(3, device=X.device)", "implicit") = false ∧
    creationOk ("lietensor/lietensor.py", "so3Type.Jr", "torch.eye(3, device=X.device, dtype=X.dtype)", "dtype") = true := by decide

/-- the table is not vacuous: it does see the in-place API (`add_`, `identity_`, `cumops_`, …) -/
theorem source_inplace_seen : ∃ f ∈ PP.Gen.functions, f.2.1 = "LieTensor.add_" ∧ f.2.2.2.2 ≠ [] := by decide +kernel

example : sig .Exp .se3 = some (.lie .SE3) ∧ sig .Exp .SE3 = none ∧ sig .Jinvp .Sim3 = some (.lie .sim3) ∧ sig .Act4 .RxSO3 = some (.tensor [4]) ∧
    sig .matrix .so3 = some (.tensor [3, 3]) ∧ sig .Jr .SE3 = none ∧ (Res.lie LT.sim3).shape [2, 0, 3] = [2, 0, 3, 7] ∧
    initOk .SE3 [5, 7] = true ∧ initOk .SE3 [5, 8] = false := by decide
example : inplaceName "copy_" = true ∧ inplaceName "__setitem__" = true ∧ inplaceName "__getitem__" = false ∧ inplaceName "clone" = false ∧
    (semOf "index_copy_").map effectOf = some Effect.inplace ∧ (semOf "index_copy").map effectOf = some Effect.fresh ∧
    (semOf "view").map effectOf = some Effect.view := by decide
example : let st : Store Nat := ⟨fun s => 10 * s, 3⟩
    ((applyHandled "cat" st 1 99).map fun r => ((List.range 4).map r.1.mem, r.1.next, r.2)) = some ([0, 10, 20, 99], 4, 3) ∧
    ((applyHandled "copy_" st 1 99).map fun r => ((List.range 4).map r.1.mem, r.1.next, r.2)) = some ([0, 99, 20, 30], 3, 1) ∧
    ((applyHandled "permute" st 1 99).map fun r => ((List.range 4).map r.1.mem, r.1.next, r.2)) = some ([0, 10, 20, 30], 3, 1) := by decide

/-! ## `retain_ltype` / `func.jacrev`: the patch is undone on every exit path -/
namespace Retain

/-- the `nest` case of `run` is a nested `retain` -/
theorem run_nest (ord : List Nat) (t : Table) (inner k : Body) :
    run ord t (.nest inner k) =
      match retain ord t inner none with
      | (t', .ok, log1) => let (t'', o, log) := run ord t' k; (t'', o, log1 ++ log)
      | (t', .raised, log1) => (t', .raised, log1) := by
  simp only [run, retain]
  cases run ord (patch t (captured t ord)) inner with
  | mk t1 ol => cases ol with
    | mk o l => cases o <;> rfl

/-- running a body never changes a protected slot, given that every `retain` inside it restores -/
theorem run_preserves (ord : List Nat) (h3 : 3 ∉ ord) : ∀ (b : Body) (t : Table), WellHomed ord t →
    ∀ q, q ≠ 3 → (run ord t b).1 q = t q := by
  -- the statement for `retain` with body `b` follows from the statement for `run` with body `b`
  have retain_of_run : ∀ (b : Body), (∀ t, WellHomed ord t → ∀ q, q ≠ 3 → (run ord t b).1 q = t q) →
      ∀ t (fa : Option Nat), WellHomed ord t → ∀ q, q ≠ 3 → (retain ord t b fa).1 q = t q := by
    intro b hb t fa hw q hq
    have hcap : ∀ f ∈ captured t ord, ∃ s ∈ ord, f = t s := by
      intro f hf
      obtain ⟨s, hs, rfl⟩ := List.mem_map.mp hf
      exact ⟨s, hs, rfl⟩
    -- all captured functions whose home is q are `t q`
    have huniq : ∀ f ∈ captured t ord, home f = q → f = t q := by
      intro f hf hh
      obtain ⟨s, hs, rfl⟩ := hcap f hf
      rcases hw s hs with h | h
      · rw [h] at hh; rw [hh]
      · rw [h] at hh; exact absurd hh.symm hq
    -- final value of slot q after `restore t' fs`, for any t' that agrees with a patched table off slot 3
    have fin : ∀ (t' : Table), (∀ q', q' ≠ 3 → (∀ f ∈ captured t ord, home f ≠ q') → t' q' = t q') →
        restore t' (captured t ord) q = t q := by
      intro t' ht'
      by_cases hex : ∃ f ∈ captured t ord, home f = q
      · exact restore_hit _ _ q (t q) hex huniq
      · have hno : ∀ f ∈ captured t ord, home f ≠ q := fun f hf hh => hex ⟨f, hf, hh⟩
        rw [restore_other _ _ q hno]
        exact ht' q hq hno
    unfold retain
    cases fa with
    | some j =>
      simp only
      apply fin
      intro q' _ hno
      exact patch_other _ _ q' (fun f hf => hno f (List.mem_of_mem_take hf))
    | none =>
      simp only
      apply fin
      intro q' hq' hno
      rw [hb _ (wellHomed_patch _ hw) q' hq']
      exact patch_other _ _ q' hno
  intro b
  induction b with
  | ret => intro t _ q _; simp [run]
  | raise => intro t _ q _; simp [run]
  | call s k ih => intro t hw q hq; simp only [run]; exact ih t hw q hq
  | nest inner k ihi ihk =>
    intro t hw q hq
    have hret := retain_of_run inner ihi t none hw
    rw [run_nest]
    cases hr : retain ord t inner none with
    | mk t' ol =>
      obtain ⟨o, l⟩ := ol
      rw [hr] at hret
      simp only at hret
      cases o with
      | ok =>
        simp only
        rw [ihk t' (wellHomed_congr h3 hret hw) q hq]
        exact hret q hq
      | raised => simp only; exact hret q hq

/-- **`retain_restores`.** For every body — any number of wrapped calls, any nesting of further
`retain_ltype` contexts (nested `jacrev`), returning or raising at any point, even an exception inside the
patch loop itself (`failAt`) — and every iteration order of the `TO_BE_WRAPPED` set: after the context exits,
every torch slot holds exactly what it held before. (Slot 3, `pypose.lietensor.lietensor.wrapper`, is *not*
restored by a nested context — it is not a PyTorch internal.) -/
theorem retain_restores (ord : List Nat) (h3 : 3 ∉ ord) (t : Table) (hw : WellHomed ord t) (body : Body)
    (failAt : Option Nat) : ∀ q, q ≠ 3 → (retain ord t body failAt).1 q = t q := by
  intro q hq
  have hrun := run_preserves ord h3 body
  -- same argument as inside `run_preserves`
  have hcap : ∀ f ∈ captured t ord, ∃ s ∈ ord, f = t s := by
    intro f hf
    obtain ⟨s, hs, rfl⟩ := List.mem_map.mp hf
    exact ⟨s, hs, rfl⟩
  have huniq : ∀ f ∈ captured t ord, home f = q → f = t q := by
    intro f hf hh
    obtain ⟨s, hs, rfl⟩ := hcap f hf
    rcases hw s hs with h | h
    · rw [h] at hh; rw [hh]
    · rw [h] at hh; exact absurd hh.symm hq
  have fin : ∀ (t' : Table), (∀ q', q' ≠ 3 → (∀ f ∈ captured t ord, home f ≠ q') → t' q' = t q') →
      restore t' (captured t ord) q = t q := by
    intro t' ht'
    by_cases hex : ∃ f ∈ captured t ord, home f = q
    · exact restore_hit _ _ q (t q) hex huniq
    · have hno : ∀ f ∈ captured t ord, home f ≠ q := fun f hf hh => hex ⟨f, hf, hh⟩
      rw [restore_other _ _ q hno]
      exact ht' q hq hno
  unfold retain
  cases failAt with
  | some j =>
    simp only
    apply fin
    intro q' _ hno
    exact patch_other _ _ q' (fun f hf => hno f (List.mem_of_mem_take hf))
  | none =>
    simp only
    apply fin
    intro q' hq' hno
    rw [hrun _ (wellHomed_patch _ hw) q' hq']
    exact patch_other _ _ q' hno

/-- The context manager does not swallow the exception: the outcome of the `with` block is the body's. -/
theorem retain_outcome (ord : List Nat) (t : Table) (body : Body) :
    (retain ord t body none).2.1 = (run ord (patch t (captured t ord)) body).2.1 := by
  unfold retain; simp only

/-- Inside the body the three slots really are patched (the theorem above is not vacuous): from the
pristine table every slot of `ord` holds a wrapper of its original. -/
theorem retain_patches (ord : List Nat) (hnd : ord.Nodup) (s : Nat) (hs : s ∈ ord) :
    patch (fun q => Fn.orig q) (captured (fun q => Fn.orig q) ord) s = Fn.wrap (Fn.orig s) := by
  induction ord with
  | nil => simp at hs
  | cons a rest ih =>
    simp only [captured, List.map_cons, patch, home]
    rcases List.mem_cons.mp hs with rfl | hs'
    · have hno : ∀ f ∈ List.map (fun q => Fn.orig q) rest, home f ≠ s := by
        intro f hf
        obtain ⟨q, hq, rfl⟩ := List.mem_map.mp hf
        simp only [home]
        intro e; subst e
        exact (List.nodup_cons.mp hnd).1 hq
      rw [patch_other _ _ s hno]
      simp [Table.set]
    · -- the first write touches slot a ≠ s; continue with the rest
      have hne : s ≠ a := by intro e; subst e; exact (List.nodup_cons.mp hnd).1 hs'
      have gen : ∀ (fs : List Fn) (u u' : Table), (∀ q, q ≠ a → u q = u' q) → ∀ q, q ≠ a → (∀ f ∈ fs, home f ≠ a) →
          patch u fs q = patch u' fs q := by
        intro fs
        induction fs with
        | nil => intro u u' h q hq _; exact h q hq
        | cons f fs ihf =>
          intro u u' h q hq hno
          simp only [patch]
          apply ihf _ _ _ q hq (fun g hg => hno g (List.mem_cons_of_mem _ hg))
          intro q' hq'
          simp only [Table.set]
          split
          · rfl
          · exact h q' hq'
      have hno : ∀ f ∈ List.map (fun q => Fn.orig q) rest, home f ≠ a := by
        intro f hf
        obtain ⟨q, hq, rfl⟩ := List.mem_map.mp hf
        simp only [home]
        intro e; subst e
        exact (List.nodup_cons.mp hnd).1 hq
      rw [gen _ _ (fun q => Fn.orig q) (by intro q hq; simp [Table.set, hq]) s hne hno]
      exact ih (List.nodup_cons.mp hnd).2 hs'

theorem pristine_wellHomed (ord : List Nat) : WellHomed ord pristine := by
  intro s _; left; rfl

/-- From the pristine table the theorem applies to every body: unconditional form of `retain_restores`. -/
theorem retain_restores_pristine (ord : List Nat) (h3 : 3 ∉ ord) (body : Body) (failAt : Option Nat) :
    ∀ q, q ≠ 3 → (retain ord pristine body failAt).1 q = Fn.orig q :=
  retain_restores ord h3 pristine (pristine_wellHomed ord) body failAt

theorem patched_wellHomed {ord : List Nat} {t : Table} (h : Patched ord t) : WellHomed ord t := by
  intro s hs; right; rw [h s hs]; rfl

theorem captured_home3 {ord : List Nat} {t : Table} (h : Patched ord t) : ∀ f ∈ captured t ord, home f = 3 := by
  intro f hf
  obtain ⟨s, hs, rfl⟩ := List.mem_map.mp hf
  rw [h s hs]; rfl

/-- **Inside the context every call finds a wrapper** — at any nesting depth, before or after inner contexts
have exited or raised: the log of a body run in a patched table consists of wrappers of originals only. -/
theorem run_log_wrapped (ord : List Nat) (h3 : 3 ∉ ord) : ∀ (b : Body) (t : Table), Patched ord t → b.callsIn ord →
    ∀ f ∈ (run ord t b).2.2, ∃ s ∈ ord, f = Fn.wrap (Fn.orig s) := by
  intro b
  induction b with
  | ret => intro t _ _ f hf; simp [run] at hf
  | raise => intro t _ _ f hf; simp [run] at hf
  | call s k ih =>
    intro t hp hc f hf
    simp only [Body.callsIn] at hc
    simp only [run, List.mem_cons] at hf
    rcases hf with rfl | hf
    · exact ⟨s, hc.1, hp s hc.1⟩
    · exact ih t hp hc.2 f hf
  | nest inner k ihi ihk =>
    intro t hp hc f hf
    simp only [Body.callsIn] at hc
    have hh3 := captured_home3 hp
    have hne : ∀ s ∈ ord, ∀ g ∈ captured t ord, home g ≠ s := by
      intro s hs g hg e
      rw [hh3 g hg] at e
      exact h3 (e ▸ hs)
    have hp1 : Patched ord (patch t (captured t ord)) := by
      intro s hs
      rw [patch_other _ _ s (hne s hs)]; exact hp s hs
    have hpres := run_preserves ord h3 inner _ (patched_wellHomed hp1)
    simp only [run] at hf
    cases hr : run ord (patch t (captured t ord)) inner with
    | mk t1 ol =>
      obtain ⟨o, l⟩ := ol
      have hl : ∀ g ∈ l, ∃ s ∈ ord, g = Fn.wrap (Fn.orig s) := by
        have := ihi _ hp1 hc.1
        rw [hr] at this
        exact this
      rw [hr] at hf hpres
      simp only at hpres
      cases o with
      | raised => simp only at hf; exact hl f hf
      | ok =>
        simp only at hf
        have hp2 : Patched ord (restore t1 (captured t ord)) := by
          intro s hs
          have hs3 : s ≠ 3 := fun e => h3 (e ▸ hs)
          rw [restore_other _ _ s (hne s hs), hpres s hs3]
          exact hp1 s hs
        rcases List.mem_append.mp hf with h1 | h2
        · exact hl f h1
        · exact ihk _ hp2 hc.2 f h2

/-- `retain_ltype()` entered from the pristine table: every call made by the body (any nesting, any point) finds
the wrapper of the original — and afterwards the originals are back (`retain_restores`). -/
theorem retain_calls_wrapped (ord : List Nat) (hnd : ord.Nodup) (h3 : 3 ∉ ord) (body : Body) (hc : body.callsIn ord) :
    ∀ f ∈ (retain ord (fun q => Fn.orig q) body none).2.2, ∃ s ∈ ord, f = Fn.wrap (Fn.orig s) := by
  have hp : Patched ord (patch (fun q => Fn.orig q) (captured (fun q => Fn.orig q) ord)) :=
    fun s hs => retain_patches ord hnd s hs
  have := run_log_wrapped ord h3 body _ hp hc
  unfold retain
  simp only
  exact this

/-- **No state leaks between calls**: after any history of contexts — any bodies, any outcomes, faults in the
patch loop — every torch slot holds what it held before the first one. -/
theorem retain_history (ord : List Nat) (h3 : 3 ∉ ord) : ∀ (hist : List (Body × Option Nat)) (t : Table),
    WellHomed ord t → ∀ q, q ≠ 3 → history ord t hist q = t q
  | [], _, _, _, _ => rfl
  | (b, fa) :: rest, t, hw, q, hq => by
    simp only [history]
    have h1 := retain_restores ord h3 t hw b fa
    rw [retain_history ord h3 rest _ (wellHomed_congr h3 h1 hw) q hq]
    exact h1 q hq

/-- what a body does depends only on the torch slots: two tables that agree off slot 3 give the same outcome, the same
call log and tables that again agree off slot 3 -/
theorem run_congr (ord : List Nat) (h3 : 3 ∉ ord) : ∀ (b : Body) (t t' : Table), (∀ q, q ≠ 3 → t q = t' q) → b.callsIn ord →
    (∀ q, q ≠ 3 → (run ord t b).1 q = (run ord t' b).1 q) ∧ (run ord t b).2 = (run ord t' b).2 := by
  intro b
  induction b with
  | ret => intro t t' h _; exact ⟨by simpa [run] using h, by simp [run]⟩
  | raise => intro t t' h _; exact ⟨by simpa [run] using h, by simp [run]⟩
  | call s k ih =>
    intro t t' h hc
    simp only [Body.callsIn] at hc
    obtain ⟨i1, i2⟩ := ih t t' h hc.2
    have hs : t s = t' s := h s (fun e => h3 (e ▸ hc.1))
    refine ⟨by simpa [run] using i1, ?_⟩
    simp only [run]
    rw [hs]
    have : (run ord t k).2 = (run ord t' k).2 := i2
    rw [Prod.ext_iff] at this
    simp [this.1, this.2]
  | nest inner k ihi ihk =>
    intro t t' h hc
    simp only [Body.callsIn] at hc
    have hcap := captured_congr ord h3 t t' h
    have hp := patch_congr (captured t ord) t t' h
    obtain ⟨j1, j2⟩ := ihi _ _ hp hc.1
    simp only [run]
    rw [← hcap]
    cases hr : run ord (patch t (captured t ord)) inner with
    | mk t1 ol =>
      cases hr' : run ord (patch t' (captured t ord)) inner with
      | mk t1' ol' =>
        rw [hr, hr'] at j1 j2
        simp only at j1 j2
        subst j2
        obtain ⟨o, l⟩ := ol
        have hrest := restore_congr (captured t ord) t1 t1' j1
        cases o with
        | raised => exact ⟨by simpa using hrest, rfl⟩
        | ok =>
          simp only
          obtain ⟨m1, m2⟩ := ihk _ _ hrest hc.2
          refine ⟨m1, ?_⟩
          rw [Prod.ext_iff] at m2
          simp [m2.1, m2.2]

/-- **A failing call is atomic.** A context that failed in any way (its body raised anywhere, or the patch loop itself
raised) followed by a second context behaves exactly like the second context alone: same outcome, same call log, same
torch slots afterwards. -/
theorem retain_atomic (ord : List Nat) (h3 : 3 ∉ ord) (t : Table) (hw : WellHomed ord t) (b1 b2 : Body) (fa : Option Nat)
    (hc : b2.callsIn ord) :
    let t1 := (retain ord t b1 fa).1
    (retain ord t1 b2 none).2 = (retain ord t b2 none).2 ∧ ∀ q, q ≠ 3 → (retain ord t1 b2 none).1 q = (retain ord t b2 none).1 q := by
  intro t1
  have h1 : ∀ q, q ≠ 3 → t1 q = t q := retain_restores ord h3 t hw b1 fa
  have hcap := captured_congr ord h3 t1 t h1
  have hp := patch_congr (captured t1 ord) t1 t h1
  obtain ⟨r1, r2⟩ := run_congr ord h3 b2 _ _ hp hc
  unfold retain
  simp only
  rw [← hcap]
  cases hr : run ord (patch t1 (captured t1 ord)) b2 with
  | mk u ol =>
    cases hr' : run ord (patch t (captured t1 ord)) b2 with
    | mk u' ol' =>
      rw [hr, hr'] at r1 r2
      simp only at r1 r2
      subst r2
      exact ⟨rfl, restore_congr _ u u' r1⟩

theorem depth_nestN (n : Nat) (b : Body) : (nestN n b).depth = n + b.depth ∨ (nestN n b).depth = max n (n + b.depth) := by
  induction n with
  | zero => left; simp [nestN]
  | succ n ih =>
    left
    simp only [nestN, Body.depth]
    rcases ih with h | h <;> rw [h] <;> omega

/-- **Nesting of arbitrary depth**: `n` contexts inside one another around any body (which may itself nest, call and raise)
— for every `n` the torch slots are restored, and the exception of the innermost body reaches the outside. -/
theorem retain_restores_depth (ord : List Nat) (h3 : 3 ∉ ord) (n : Nat) (b : Body) (fa : Option Nat) :
    ∀ q, q ≠ 3 → (retain ord pristine (nestN n b) fa).1 q = Fn.orig q :=
  retain_restores_pristine ord h3 (nestN n b) fa

example : (nestN 7 (.call 1 .raise)).depth = 7 ∧
    (List.range 3).map (retain [1, 2, 0] pristine (nestN 7 (.call 1 .raise)) none).1 = [Fn.orig 0, Fn.orig 1, Fn.orig 2] ∧
    (retain [1, 2, 0] pristine (nestN 7 (.call 1 .raise)) none).2.1 = Outcome.raised := by decide

example : let t0 : Table := fun q => Fn.orig q
    let r := retain [2, 0, 1] t0 (.call 0 (.nest (.call 1 .raise) .ret)) none
    ((List.range 3).map r.1 = (List.range 3).map t0) ∧ r.2.1 = Outcome.raised ∧ r.1 3 ≠ t0 3 ∧
      r.2.2 = [Fn.wrap (Fn.orig 0), Fn.wrap (Fn.orig 1)] := by decide

end Retain

end PP.Batch
